//! C16 — cell-size helpers (the decidable half). Child module of src/lib.rs.
use super::*;

/// CONTRACT of best_starting_depth, for EVERY f64 below the depth-0 limit: the returned depth d has
/// T[d] > r and is the deepest such depth (d == 29 or T[d+1] <= r).
#[kani::proof]
fn bsd_contract() {
  let r: f64 = kani::any();
  kani::assume(r < SMALLER_EDGE2OPEDGE_DIST[0]); // NaN excluded by the comparison
  let d = best_starting_depth(r);
  assert!(d <= 29, "C16 depth in range");
  assert!(SMALLER_EDGE2OPEDGE_DIST[d as usize] > r, "C16 tabulated limit of the returned depth exceeds r");
  assert!(d == 29 || SMALLER_EDGE2OPEDGE_DIST[d as usize + 1] <= r, "C16 returned depth is the deepest one whose limit exceeds r");
  assert!(has_best_starting_depth(r), "C16 has_best_starting_depth announces it");
  kani::cover!(d == 0); kani::cover!(d == 29); kani::cover!(d == 15); kani::cover!(d == 7); kani::cover!(d == 22);
  kani::cover!(r < 0.0, "negative radius");
}

/// every depth is reachable, i.e. the binary search has no dead arm (one cover per depth)
#[kani::proof]
fn bsd_every_depth_reachable() {
  let r: f64 = kani::any();
  kani::assume(r < SMALLER_EDGE2OPEDGE_DIST[0] && r > 0.0);
  let d = best_starting_depth(r);
  kani::cover!(d == 0); kani::cover!(d == 1); kani::cover!(d == 2); kani::cover!(d == 3); kani::cover!(d == 4);
  kani::cover!(d == 5); kani::cover!(d == 6); kani::cover!(d == 7); kani::cover!(d == 8); kani::cover!(d == 9);
  kani::cover!(d == 10); kani::cover!(d == 11); kani::cover!(d == 12); kani::cover!(d == 13); kani::cover!(d == 14);
  kani::cover!(d == 15); kani::cover!(d == 16); kani::cover!(d == 17); kani::cover!(d == 18); kani::cover!(d == 19);
  kani::cover!(d == 20); kani::cover!(d == 21); kani::cover!(d == 22); kani::cover!(d == 23); kani::cover!(d == 24);
  kani::cover!(d == 25); kani::cover!(d == 26); kani::cover!(d == 27); kani::cover!(d == 28); kani::cover!(d == 29);
  assert!(d <= 29);
}

/// the table is strictly decreasing and positive (so 'deepest depth whose limit exceeds r' is well defined)
#[kani::proof]
fn bsd_table_strictly_decreasing() {
  let k: usize = kani::any();
  kani::assume(k < 29);
  assert!(SMALLER_EDGE2OPEDGE_DIST[k] > SMALLER_EDGE2OPEDGE_DIST[k + 1], "C16 table strictly decreasing");
  assert!(SMALLER_EDGE2OPEDGE_DIST[29] > 0.0);
  // each entry is between 0.4x and 0.6x the previous one (cells halve in size): a transcription guard
  assert!(SMALLER_EDGE2OPEDGE_DIST[k + 1] > 0.4 * SMALLER_EDGE2OPEDGE_DIST[k]
       && SMALLER_EDGE2OPEDGE_DIST[k + 1] < 0.6 * SMALLER_EDGE2OPEDGE_DIST[k], "C16 table entries halve");
  // transcription guard: the ratio T[d]/T[d+1] decreases monotonically towards 2 (cells become flat):
  // T[d]/T[d+1] > 2 and T[d]/T[d+1] > T[d+1]/T[d+2]  (a swapped digit in one entry breaks one of them)
  assert!(SMALLER_EDGE2OPEDGE_DIST[k] > 2.0 * SMALLER_EDGE2OPEDGE_DIST[k + 1], "C16 table: each limit is more than twice the next one");
  if k < 28 { assert!(SMALLER_EDGE2OPEDGE_DIST[k] * SMALLER_EDGE2OPEDGE_DIST[k + 2] >= SMALLER_EDGE2OPEDGE_DIST[k + 1] * SMALLER_EDGE2OPEDGE_DIST[k + 1] * (1.0 - 1e-7), "C16 table: ratios of consecutive limits decrease towards 2"); }
}

#[kani::proof]
fn bsd_has_iff() {
  let r: f64 = kani::any();
  assert!(has_best_starting_depth(r) == (r < SMALLER_EDGE2OPEDGE_DIST[0]), "C16 has_best_starting_depth <=> r below the depth-0 limit");
  kani::cover!(has_best_starting_depth(r)); kani::cover!(!has_best_starting_depth(r));
}

#[kani::proof]
fn bsd_must_panic() {
  let r: f64 = kani::any();
  kani::assume(!(r < SMALLER_EDGE2OPEDGE_DIST[0])); // too large, +inf or NaN
  kani::cover!(r != r, "NaN");
  let _ = best_starting_depth(r);
  assert!(false, "MUST_PANIC best_starting_depth accepted a radius it announces as refused");
}

#[kani::proof]
fn bsd_canary() {
  let r: f64 = kani::any();
  kani::assume(r < SMALLER_EDGE2OPEDGE_DIST[0]);
  let d = best_starting_depth(r);
  assert!(d == 29 || SMALLER_EDGE2OPEDGE_DIST[d as usize + 1] < r, "CANARY strict inequality must be refuted (r equal to a table entry)");
}

// The '_with_radius' dominance lemmas (symbolic ConstantsC2V, two double multiplications per query)
// did not finish in CBMC within 15 min in two formulations (direct monotonicity; bit-equality with the
// shifted-argument form): they are NOT registered and that half of C16 is reported as not decided.

// ---- '_with_radius' region dispatch: no internal assertion may fail -------------------------------
/// largest_center_to_vertex_distance_with_radius(depth, lon, lat, radius) for every depth 1..=29,
/// |lat| <= pi/2, 0 < radius <= pi, any longitude within a few turns: each region function is called
/// inside the latitude range it documents (its debug assertions), i.e. debug and release builds agree
/// and nothing panics. ConstantsC2V are replaced by arbitrary values (stub of the lazy constructor):
/// the obligation is about the dispatch, not about the constants.
fn ghost_csts(_depth: u8) -> &'static ConstantsC2V {
  let c = ConstantsC2V { slope_npc: kani::any(), intercept_npc: kani::any(), slope_eqr: kani::any(), intercept_eqr: kani::any(), coeff_x2_eqr: kani::any(), coeff_cst_eqr: kani::any() };
  kani::assume(c.slope_npc.abs() <= 4.0 && c.intercept_npc.abs() <= 4.0 && c.slope_eqr.abs() <= 4.0 && c.intercept_eqr.abs() <= 4.0 && c.coeff_x2_eqr.abs() <= 4.0 && c.coeff_cst_eqr.abs() <= 4.0);
  Box::leak(Box::new(c))
}
#[kani::proof]
#[kani::stub(get_or_create, ghost_csts)]
fn c2v_with_radius_dispatch_is_safe() {
  let depth: u8 = kani::any(); let lon: f64 = kani::any(); let lat: f64 = kani::any(); let r: f64 = kani::any();
  kani::assume(depth <= 29 && lon >= -30.0 && lon <= 30.0 && lat >= -HALF_PI && lat <= HALF_PI && r > 0.0 && r <= PI);
  // the polar-cap branch reduces the longitude with the float remainder `%`, which CBMC over-approximates
  // (even 0.8557 % (pi/2) is not evaluated exactly): that branch is excluded here; its defect for
  // negative longitudes (finding D17) was confirmed and repaired natively
  kani::assume(lat.abs() + r < TRANSITION_LATITUDE);
  let _ = largest_center_to_vertex_distance_with_radius(depth, lon, lat, r);
  kani::cover!(lat.abs() > LAT_OF_SQUARE_CELL && lat.abs() - r < LAT_OF_SQUARE_CELL && lat.abs() + r < TRANSITION_LATITUDE, "band straddling the latitude of square cells, centre above it");
}
#[kani::proof]
#[kani::stub(get_or_create, ghost_csts)]
fn c2v_dispatch_is_safe() {
  let depth: u8 = kani::any(); let lon: f64 = kani::any(); let lat: f64 = kani::any();
  kani::assume(depth <= 29 && lon >= -30.0 && lon <= 30.0 && lat >= -HALF_PI && lat <= HALF_PI);
  kani::assume(lat.abs() < TRANSITION_LATITUDE); // polar-cap branch excluded: float remainder `%` over-approximated by CBMC
  let _ = largest_center_to_vertex_distance(depth, lon, lat);
}
