//! C14 — internal / external edges. Child module of src/nested/mod.rs.
use super::*;
use crate::verif_spec as sp;
use crate::compass_point::{MainWind, Cardinal, Ordinal};

fn sub_ij(x: u64, dd: u8) -> (u32, u32) {
  let low = x & ((1u64 << (2 * dd as u32)) - 1);
  (sp::even_bits(low), sp::odd_bits(low))
}

/// internal_edge(hash, dd): 4*2^dd - 4 descendants, all on the border of the parent, listed as a
/// closed walk (consecutive cells adjacent, last adjacent to first) starting at the south corner
/// and passing the east corner after one side; the sorted variant is its sorted permutation; the
/// corner / side helpers return the matching cells.
fn check_internal_edge(dd: u8) {
  let h: u64 = kani::any();
  kani::assume(h < sp::n_hash(29 - dd));
  let am1 = (1u32 << dd) - 1;
  let len = (am1 as usize) << 2;
  let e = Layer::internal_edge(h, dd);
  assert!(e.len() == len, "C14 internal edge has 4*2^delta - 4 cells");
  let k: usize = kani::any();
  kani::assume(k < len);
  let x = e[k];
  assert!((x >> (2 * dd as u32)) == h, "C14 internal edge cells are descendants of the cell");
  let (i, j) = sub_ij(x, dd);
  assert!(i == 0 || j == 0 || i == am1 || j == am1, "C14 internal edge cells touch the border of the cell");
  let y = e[if k + 1 == len { 0 } else { k + 1 }];
  let (i2, j2) = sub_ij(y, dd);
  let di = if i > i2 { i - i2 } else { i2 - i }; let dj = if j > j2 { j - j2 } else { j2 - j };
  assert!(di + dj == 1 || (dd == 1 && di + dj <= 2 && x != y), "C14 consecutive cells of the walk are adjacent (closed walk)");
  assert!(sub_ij(e[0], dd) == (0, 0), "C14 walk starts at the south corner");
  assert!(sub_ij(e[am1 as usize], dd) == (am1, 0), "C14 walk passes the east corner after the south-east side");
  assert!(sub_ij(e[2 * am1 as usize], dd) == (am1, am1), "C14 then the north corner");
  assert!(sub_ij(e[3 * am1 as usize], dd) == (0, am1), "C14 then the west corner");
  // no duplicates: two different positions hold different cells
  let k2: usize = kani::any();
  kani::assume(k2 < len && k2 != k);
  assert!(e[k2] != x, "C14 no duplicate in the internal edge");
  // sorted variant: same length, ascending, same set (each element of one is in the other)
  let s = Layer::internal_edge_sorted(h, dd);
  assert!(s.len() == len, "C14 sorted variant has the same length");
  if k + 1 < len { assert!(s[k] < s[k + 1], "C14 sorted variant strictly increasing"); }
  let mut found = false; let mut found2 = false; let mut q = 0;
  while q < len { if s[q] == x { found = true; } if e[q] == s[k] { found2 = true; } q += 1; }
  assert!(found && found2, "C14 sorted variant is a permutation of the internal edge");
  // corner helpers
  assert!(internal_corner(h, dd, &Cardinal::S) == e[0] && internal_corner(h, dd, &Cardinal::E) == e[am1 as usize]
    && internal_corner(h, dd, &Cardinal::N) == e[2 * am1 as usize] && internal_corner(h, dd, &Cardinal::W) == e[3 * am1 as usize], "C14 internal_corner == the corner cells of the walk");
}
#[kani::proof] #[kani::unwind(34)] fn edge_internal_dd1() { check_internal_edge(1) }
#[kani::proof] #[kani::unwind(34)] fn edge_internal_dd2() { check_internal_edge(2) }
#[kani::proof] #[kani::unwind(34)] fn edge_internal_dd3() { check_internal_edge(3) }

/// the walk alone (no sorted variant, whose sort dominates the cost): larger delta_depth in the quick tier
fn check_internal_walk(dd: u8) {
  let h: u64 = kani::any();
  kani::assume(h < sp::n_hash(29 - dd));
  let am1 = (1u32 << dd) - 1;
  let len = (am1 as usize) << 2;
  let e = Layer::internal_edge(h, dd);
  assert!(e.len() == len, "C14 internal edge has 4*2^delta - 4 cells");
  let k: usize = kani::any();
  kani::assume(k < len);
  let x = e[k];
  assert!((x >> (2 * dd as u32)) == h, "C14 internal edge cells are descendants of the cell");
  let (i, j) = sub_ij(x, dd);
  let side = k / am1 as usize; let off = (k % am1 as usize) as u32;
  let (ei, ej) = match side { 0 => (off, 0), 1 => (am1, off), 2 => (am1 - off, am1), _ => (0, am1 - off) };
  assert!((i, j) == (ei, ej), "C14 k-th cell of the walk S->E->N->W is the k-th border cell");
}
#[kani::proof] #[kani::unwind(34)] fn edge_walk_dd3() { check_internal_walk(3) }
#[kani::proof] #[kani::unwind(66)] fn edge_walk_dd4() { check_internal_walk(4) }
#[kani::proof] #[kani::unwind(130)] fn edge_walk_dd5() { check_internal_walk(5) }

/// internal_edge_part(hash, dd, side): the 2^dd descendants lying on that side, ascending
fn check_edge_part(dd: u8) {
  let h: u64 = kani::any();
  kani::assume(h < sp::n_hash(29 - dd));
  let n = 1u32 << dd; let am1 = n - 1;
  let side: u8 = kani::any(); kani::assume(side < 4);
  let ord = match side { 0 => Ordinal::SE, 1 => Ordinal::SW, 2 => Ordinal::NE, _ => Ordinal::NW };
  let p = internal_edge_part(h, dd, &ord);
  assert!(p.len() == n as usize, "C14 a side has 2^delta cells");
  let k: usize = kani::any(); kani::assume(k < n as usize);
  let (i, j) = sub_ij(p[k], dd);
  assert!((p[k] >> (2 * dd as u32)) == h, "C14 side cells are descendants");
  match side { 0 => assert!(j == 0 && i == k as u32, "C14 SE side: j == 0"), 1 => assert!(i == 0 && j == k as u32, "C14 SW side: i == 0"),
               2 => assert!(i == am1 && j == k as u32, "C14 NE side: i == max"), _ => assert!(j == am1 && i == k as u32, "C14 NW side: j == max") }
  if k + 1 < n as usize { assert!(p[k] < p[k + 1], "C14 side cells ascending"); }
  let mut v: Vec<u64> = Vec::with_capacity(n as usize);
  append_internal_edge_part(h, dd, &ord, &mut v);
  assert!(v.len() == n as usize && v[k] == p[k], "C14 append_ variant returns the same cells");
}
#[kani::proof] #[kani::unwind(34)] fn edge_part_dd1() { check_edge_part(1) }
#[kani::proof] #[kani::unwind(34)] fn edge_part_dd2() { check_edge_part(2) }
#[kani::proof] #[kani::unwind(34)] fn edge_part_dd3() { check_edge_part(3) }

/// Direction rule of the external edge: for cell (b,i,j), direction k with neighbour X, the
/// direction from which X sees the cell, as selected by external_edge_generic/_struct (same base
/// cell: opposite; depth 0: direction_from_neighbour; else edge_cell_direction_from_neighbour with
/// direction_in_base_cell_border), must name exactly the vertices X shares with the cell.
fn check_edge_dir(d: u8, klo: u8, khi: u8) {
  let l = Layer::new(d);
  let n = 1i64 << d;
  let b: u8 = kani::any(); let i: u32 = kani::any(); let j: u32 = kani::any();
  kani::assume(b < 12 && (i as i64) < n && (j as i64) < n);
  let k: u8 = kani::any();
  kani::assume(k < 9 && k != 4 && klo <= k && k <= khi);
  if let Some(x) = l.neighbour_from_parts(b, i, j, MainWind::from_index(k)) {
    let (b2, i2, j2) = sp::decode(d, x);
    let dir = MainWind::from_index(k);
    let from_neig = if b == b2 {
      dir.opposite()
    } else if d == 0 {
      crate::direction_from_neighbour(b, &dir)
    } else {
      let ib = sp::interleave(i, 0); let jb = sp::interleave(0, j);
      crate::edge_cell_direction_from_neighbour(b, &l.direction_in_base_cell_border(ib, jb), &dir)
    };
    let idx = from_neig.offset_se() + 1 + 3 * (from_neig.offset_sw() + 1);
    let vh = sp::cell_vertices(n, b, i as i64, j as i64);
    let vx = sp::cell_vertices(n, b2, i2, j2);
    assert!(sp::shared_mask(&vx, &vh) == sp::expected_shared(idx as u8), "C14 direction seen from the neighbour names exactly the shared edge / vertex");
    kani::cover!(b != b2, "neighbour in another base cell");
  }
}
#[kani::proof] #[kani::stub_verified(Layer::build_hash_from_parts)] #[kani::unwind(33)] fn edge_dir_d00() { check_edge_dir(0, 0, 8) }
#[kani::proof] #[kani::stub_verified(Layer::build_hash_from_parts)] #[kani::unwind(33)] fn edge_dir_d01() { check_edge_dir(1, 0, 8) }
#[kani::proof] #[kani::stub_verified(Layer::build_hash_from_parts)] #[kani::unwind(33)] fn edge_dir_d02() { check_edge_dir(2, 0, 8) }
#[kani::proof] #[kani::stub_verified(Layer::build_hash_from_parts)] #[kani::unwind(33)] fn edge_dir_d03() { check_edge_dir(3, 0, 8) }

/// append_sorted_internal_edge_element(h, dd, dir, v): what the external edge appends for a
/// neighbour `h` seen from direction `dir`: its internal corner (cardinal) or side (ordinal).
fn check_append_element(dd: u8) {
  let h: u64 = kani::any();
  kani::assume(h < sp::n_hash(29 - dd));
  let n = 1u32 << dd; let am1 = n - 1;
  let k: u8 = kani::any(); kani::assume(k < 9 && k != 4);
  let mut v: Vec<u64> = Vec::with_capacity(n as usize);
  append_sorted_internal_edge_element(h, dd, MainWind::from_index(k), &mut v);
  let q: usize = kani::any(); kani::assume(q < v.len());
  let (i, j) = sub_ij(v[q], dd);
  assert!((v[q] >> (2 * dd as u32)) == h, "C14 appended cells are descendants of the neighbour");
  match k {
    0 => assert!(v.len() == 1 && i == 0 && j == 0, "C14 S corner"), 2 => assert!(v.len() == 1 && i == am1 && j == 0, "C14 E corner"),
    8 => assert!(v.len() == 1 && i == am1 && j == am1, "C14 N corner"), 6 => assert!(v.len() == 1 && i == 0 && j == am1, "C14 W corner"),
    1 => assert!(v.len() == n as usize && j == 0 && i == q as u32, "C14 SE side"), 3 => assert!(v.len() == n as usize && i == 0 && j == q as u32, "C14 SW side"),
    5 => assert!(v.len() == n as usize && i == am1 && j == q as u32, "C14 NE side"), _ => assert!(v.len() == n as usize && j == am1 && i == q as u32, "C14 NW side"),
  }
}
#[kani::proof] #[kani::unwind(34)] fn edge_append_dd1() { check_append_element(1) }
#[kani::proof] #[kani::unwind(34)] fn edge_append_dd2() { check_append_element(2) }
// The end-to-end harness over external_edge / external_edge_sorted (Vec collect + sort inside) did
// not finish symbolic execution in 10 min even at depth 0: not registered (stated in the evidence).

/// Loop-free, full-domain twin of the Verus contract `edge_corners_verus` (contracts/verus_edge.py): EVERY delta_depth 1..=29 and
/// every parent cell number with room for 2*delta_depth more bits, symbolic. A loop-free harness over the full domain is a complete
/// proof, and unlike the Verus unit it yields a counterexample that is replayed natively.
#[kani::proof]
fn edge_corners_all_dd() {
  let dd: u8 = kani::any();
  let hash: u64 = kani::any();
  kani::assume(1 <= dd && dd <= 29);
  kani::assume(hash < (1u64 << (62 - 2 * dd)));
  let s = 2 * dd as u32;
  let low = (1u64 << s) - 1;
  let ev = 0x5555555555555555u64 & low; // even bits below 2*dd: i maximal, j = 0
  let od = 0xAAAAAAAAAAAAAAAAu64 & low; // odd bits below 2*dd:  i = 0, j maximal
  let so = internal_corner(hash, dd, &Cardinal::S);
  let ea = internal_corner(hash, dd, &Cardinal::E);
  let we = internal_corner(hash, dd, &Cardinal::W);
  let no = internal_corner(hash, dd, &Cardinal::N);
  assert!(so >> s == hash && ea >> s == hash && we >> s == hash && no >> s == hash, "C14 every corner cell is a descendant of the parent");
  assert!(so & low == 0, "C14 south corner: sub-cell index 0");
  assert!(ea & low == ev, "C14 east corner: i maximal, j = 0 (all even bits)");
  assert!(we & low == od, "C14 west corner: i = 0, j maximal (all odd bits)");
  assert!(no & low == low, "C14 north corner: sub-cell index 4^delta - 1");
  assert!(x_mask(dd) == ev && y_mask(dd) == od && xy_mask(dd) == low, "C14 masks are the even / odd / all bits below 2*delta");
  kani::cover!(dd == 29, "delta_depth 29");
  kani::cover!(dd == 17 && hash == 0, "delta_depth 17");
}
