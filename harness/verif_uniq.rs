//! C18 — uniq / IVOA-uniq encodings. Child module of src/nested/mod.rs.
//! Contracts (injected by contracts/overlay.py on the real functions):
//!   to_uniq(d,h)       requires valid_cell(d,h)  ensures r == 4^(d+2) + h
//!   to_uniq_ivoa(d,h)  requires valid_cell(d,h)  ensures r == 4*4^d + h
//!   from_uniq(u)       requires is_uniq(u)       ensures valid_cell(r) && uniq(r) == u
//!   from_uniq_ivoa(u)  requires is_uniq_ivoa(u)  ensures valid_cell(r) && uniq_ivoa(r) == u
//! plus the injectivity lemma of the spec encodings => the pairs are mutually inverse.
use super::*;
use crate::verif_spec as sp;

pub fn is_uniq(u: u64) -> bool {
  // u = 4^(d+2) + h with h < 12*4^d  <=>  16*4^d <= u < 28*4^d for some d <= 29
  let mut d = 0u8;
  while d <= 29 {
    if (16u64 << (2 * d)) <= u && u < (28u64 << (2 * d)) { return true; }
    d += 1;
  }
  false
}
pub fn is_uniq_ivoa(u: u64) -> bool {
  let mut d = 0u8;
  while d <= 29 {
    if (4u64 << (2 * d)) <= u && u < (16u64 << (2 * d)) { return true; }
    d += 1;
  }
  false
}

#[kani::proof_for_contract(to_uniq)]
fn uniq_to_uniq_contract() {
  let d: u8 = kani::any();
  let h: u64 = kani::any();
  let r = to_uniq(d, h);
  kani::cover!(d == 29 && h == sp::n_hash(29) - 1);
  kani::cover!(d == 0 && h == 0);
  assert!(r == sp::uniq(d, h), "C18 to_uniq == 4^(depth+2) + hash");
}

#[kani::proof_for_contract(to_uniq_ivoa)]
fn uniq_to_uniq_ivoa_contract() {
  let d: u8 = kani::any();
  let h: u64 = kani::any();
  let r = to_uniq_ivoa(d, h);
  kani::cover!(d == 29 && h == sp::n_hash(29) - 1);
  assert!(r == sp::uniq_ivoa(d, h), "C18 to_uniq_ivoa == 4*4^depth + hash");
}

#[kani::proof_for_contract(from_uniq)]
#[kani::unwind(32)]
fn uniq_from_uniq_contract() {
  let u: u64 = kani::any();
  let (d, h) = from_uniq(u);
  kani::cover!(d == 29);
  kani::cover!(d == 0 && h == 11);
  assert!(sp::valid_cell(d, h) && sp::uniq(d, h) == u, "C18 from_uniq inverts the uniq encoding");
}

#[kani::proof_for_contract(from_uniq_ivoa)]
#[kani::unwind(32)]
fn uniq_from_uniq_ivoa_contract() {
  let u: u64 = kani::any();
  let (d, h) = from_uniq_ivoa(u);
  kani::cover!(d == 29);
  kani::cover!(d == 0 && h == 11);
  assert!(sp::valid_cell(d, h) && sp::uniq_ivoa(d, h) == u, "C18 from_uniq_ivoa inverts the IVOA encoding");
}

/// Lemma over the spec encodings: distinct valid (depth, hash) pairs never collide, and every
/// encoded value satisfies the decoder's precondition.
#[kani::proof]
#[kani::unwind(32)]
fn uniq_spec_injective() {
  let d1: u8 = kani::any(); let h1: u64 = kani::any();
  let d2: u8 = kani::any(); let h2: u64 = kani::any();
  kani::assume(sp::valid_cell(d1, h1) && sp::valid_cell(d2, h2));
  kani::cover!(d1 != d2);
  if sp::uniq(d1, h1) == sp::uniq(d2, h2) { assert!(d1 == d2 && h1 == h2, "C18 uniq injective"); }
  if sp::uniq_ivoa(d1, h1) == sp::uniq_ivoa(d2, h2) { assert!(d1 == d2 && h1 == h2, "C18 uniq_ivoa injective"); }
  assert!(is_uniq(sp::uniq(d1, h1)), "encoded value satisfies from_uniq's precondition");
  assert!(is_uniq_ivoa(sp::uniq_ivoa(d1, h1)), "encoded value satisfies from_uniq_ivoa's precondition");
}

/// The property itself, on the real functions end to end (no contract used as a stub).
#[kani::proof]
fn uniq_round_trip() {
  let d: u8 = kani::any(); let h: u64 = kani::any();
  kani::assume(sp::valid_cell(d, h));
  kani::cover!(d == 29 && h == sp::n_hash(29) - 1);
  kani::cover!(d == 0);
  assert!(from_uniq(to_uniq(d, h)) == (d, h), "C18 from_uniq(to_uniq(d,h)) == (d,h)");
  assert!(from_uniq_ivoa(to_uniq_ivoa(d, h)) == (d, h), "C18 from_uniq_ivoa(to_uniq_ivoa(d,h)) == (d,h)");
  let d2: u8 = kani::any(); let h2: u64 = kani::any();
  kani::assume(sp::valid_cell(d2, h2));
  if (d, h) != (d2, h2) {
    assert!(to_uniq(d, h) != to_uniq(d2, h2), "C18 distinct cells have distinct uniq numbers");
    assert!(to_uniq_ivoa(d, h) != to_uniq_ivoa(d2, h2), "C18 distinct cells have distinct IVOA uniq numbers");
  }
  // Layer convenience methods agree with the free functions
  // (Layer::to_uniq takes the depth from the layer; checked in verif_layer for each depth class)
}

#[kani::proof]
fn uniq_canary() {
  let d: u8 = kani::any(); let h: u64 = kani::any();
  kani::assume(sp::valid_cell(d, h));
  assert!(from_uniq(to_uniq(d, h)) == (d, h.wrapping_add(1)), "CANARY wrong inverse must be refuted");
}

#[kani::proof]
fn uniq_depth_must_panic() {
  let d: u8 = kani::any(); let h: u64 = kani::any();
  kani::assume(d > 29);
  let which: bool = kani::any();
  if which { let _ = to_uniq(d, h); } else { let _ = to_uniq_ivoa(d, h); }
  assert!(false, "MUST_PANIC to_uniq accepted a depth > 29");
}
