//! C17 — projection / de-projection wrappers. Child module of src/lib.rs.
//! sin/cos/asin/acos have no semantics in CBMC: what is decided here is everything AROUND the libm
//! calls (domain guards, abs/sign decomposition, odd-floor offsets, modulo-8, sign transplant,
//! base-cell selection); the libm calls are replaced by range facts, listed as assumptions.
use super::*;
use crate::verif_spec as sp;

fn ax_sin(x: f64) -> f64 {
  let r: f64 = kani::any();
  kani::assume(r >= -1.0 && r <= 1.0);
  if x >= 0.0 { kani::assume(r.to_bits() >> 63 == 0); }   // sin of a non-negative latitude is +0 or positive (never -0)
  if x >= 0.0 && x <= TRANSITION_LATITUDE { kani::assume(r >= 0.0 && r * ONE_OVER_TRANSITION_Z <= 1.0); }
  r
}
fn ax_cos(_x: f64) -> f64 { let r: f64 = kani::any(); kani::assume(r >= 0.0 && r.to_bits() >> 63 == 0 && r * SQRT6 <= 1.0); r }

/// pm1_offset_decompose(x) for every double x in [0, 255): offset in {1,3,5,7}, pm1 in [-1,1], and
/// pm1 + (unreduced odd floor) == x exactly with offset == odd floor mod 8.
#[kani::proof]
fn proj_pm1_offset_contract() {
  let x: f64 = kani::any();
  kani::assume(x >= 0.0 && x < 255.0);
  let r = pm1_offset_decompose(x);
  assert!(r.offset == 1 || r.offset == 3 || r.offset == 5 || r.offset == 7, "C17 offset is odd, modulo 8");
  assert!(r.pm1 >= -1.0 && r.pm1 <= 1.0, "C17 remainder in [-1, 1]");
  let odd = ((x as u64) | 1) as f64;
  assert!(r.pm1 == x - odd && r.offset as u64 == ((x as u64) | 1) & 7, "C17 x == odd floor + remainder, offset == odd floor mod 8");
}

/// proj in the equatorial region (no product): |x| <= 8 with the sign of lon, |y| <= 1, and
/// x == sign(lon) * (|lon|*4/pi reduced modulo 8 to [0,8]), for |lon| <= 200.
#[kani::proof]
#[kani::stub(f64::sin, ax_sin)]
#[kani::stub(f64::cos, ax_cos)]
fn proj_eqr_range() {
  let lon: f64 = kani::any(); let lat: f64 = kani::any();
  kani::assume(lon >= -200.0 && lon <= 200.0 && lat >= -TRANSITION_LATITUDE && lat <= TRANSITION_LATITUDE);
  let (x, y) = proj(lon, lat);
  assert!(x >= -8.0 && x <= 8.0, "C17 |x| <= 8");
  assert!((x.to_bits() >> 63) == (lon.to_bits() >> 63), "C17 x carries the sign of the longitude");
  assert!(y >= -1.0 && y <= 1.0, "C17 equatorial region maps to |y| <= 1");
  assert!((y.to_bits() >> 63) == (lat.to_bits() >> 63), "C17 y carries the sign of the latitude");
  kani::cover!(lon < -7.0, "negative longitude beyond one turn");
}

/// proj in the caps: |y| in [1, 2] with the sign of lat, |x| <= 8 with the sign of lon
#[kani::proof]
#[kani::stub(f64::sin, ax_sin)]
#[kani::stub(f64::cos, ax_cos)]
fn proj_cap_range() {
  let lon: f64 = kani::any(); let lat: f64 = kani::any();
  kani::assume(lon >= -200.0 && lon <= 200.0 && lat >= -HALF_PI && lat <= HALF_PI && (lat > TRANSITION_LATITUDE || lat < -TRANSITION_LATITUDE));
  let (x, y) = proj(lon, lat);
  assert!(y.abs() >= 1.0 && y.abs() <= 2.0, "C17 polar caps map to 1 <= |y| <= 2");
  assert!((y.to_bits() >> 63) == (lat.to_bits() >> 63), "C17 y carries the sign of the latitude");
  assert!(x >= -8.0 && x <= 8.0 && (x.to_bits() >> 63) == (lon.to_bits() >> 63), "C17 |x| <= 8 with the sign of the longitude");
}

#[kani::proof]
#[kani::stub(f64::sin, ax_sin)]
#[kani::stub(f64::cos, ax_cos)]
fn proj_lat_must_panic() {
  let lon: f64 = kani::any(); let lat: f64 = kani::any();
  kani::assume(!(lat >= -HALF_PI && lat <= HALF_PI));
  let _ = proj(lon, lat);
  assert!(false, "MUST_PANIC proj accepted a latitude outside [-pi/2, pi/2]");
}
fn ax_asin(_x: f64) -> f64 { let r: f64 = kani::any(); kani::assume(r >= 0.0 && r <= TRANSITION_LATITUDE && r.to_bits() >> 63 == 0); r }
fn ax_acos(_x: f64) -> f64 { let r: f64 = kani::any(); kani::assume(r >= PI_OVER_FOUR && r <= HALF_PI); r }
#[kani::proof]
#[kani::stub(f64::asin, ax_asin)]
#[kani::stub(f64::acos, ax_acos)]
fn unproj_y_must_panic() {
  let x: f64 = kani::any(); let y: f64 = kani::any();
  kani::assume(!(y >= -2.0 && y <= 2.0));
  let _ = unproj(x, y);
  assert!(false, "MUST_PANIC unproj accepted y outside [-2, 2]");
}
/// unproj wrappers: lat in [-pi/2, pi/2] with the sign of y, lon with the sign of x, |lon| <= 2pi(1+eps)
#[kani::proof]
#[kani::stub(f64::asin, ax_asin)]
#[kani::stub(f64::acos, ax_acos)]
fn unproj_eqr_range() {
  let x: f64 = kani::any(); let y: f64 = kani::any();
  kani::assume(x >= -8.0 && x <= 8.0 && y >= -1.0 && y <= 1.0);
  let (lon, lat) = unproj(x, y);
  assert!(lat >= -TRANSITION_LATITUDE && lat <= TRANSITION_LATITUDE && (lat.to_bits() >> 63) == (y.to_bits() >> 63), "C17 equatorial band unprojects to |lat| <= asin(2/3) with the sign of y");
  assert!((lon.to_bits() >> 63) == (x.to_bits() >> 63) && lon.abs() <= 8.0 * PI_OVER_FOUR, "C17 longitude carries the sign of x and |lon| <= 2pi");
}

/// unproj in the polar caps: latitude in the cap with the sign of y; the longitude stays in the facet
/// of x and on the same side of the facet's central meridian as x (Collignon de-projection divides
/// the in-facet abscissa by a positive number and clamps it to [-1, 1]).
fn ax_acos_cap(_x: f64) -> f64 { let r: f64 = kani::any(); kani::assume(r >= 1.15026199151093 && r <= HALF_PI); r }
#[kani::proof]
#[kani::stub(f64::asin, ax_asin)]
#[kani::stub(f64::acos, ax_acos_cap)]
fn unproj_cap_side() {
  let x: f64 = kani::any(); let y: f64 = kani::any();
  kani::assume(x >= -8.0 && x < 8.0 && ((y > 1.0 && y <= 2.0) || (y < -1.0 && y >= -2.0)));
  let xa = x.abs();
  kani::assume(xa < 8.0);
  let odd = (((xa as u64) | 1) as f64);          // central meridian of the facet, in units of pi/4
  kani::assume((xa - odd).abs() <= (2.0 - y.abs()) + 4.5e-16); // inside the gore, or numerically just outside its edge (what proj returns on the meridians k*pi/2)
  let (lon, lat) = unproj(x, y);
  assert!((lat.to_bits() >> 63) == (y.to_bits() >> 63) && lat.abs() >= 0.7297 && lat.abs() <= HALF_PI, "C17 polar cap unprojects to |lat| in [asin(2/3), pi/2] with the sign of y");
  assert!((lon.to_bits() >> 63) == (x.to_bits() >> 63), "C17 longitude carries the sign of x");
  let centre = odd * PI_OVER_FOUR;
  let la = lon.abs();
  assert!(la >= (odd - 1.0) * PI_OVER_FOUR && la <= (odd + 1.0) * PI_OVER_FOUR, "C17 longitude stays in the facet of x");
  if xa < odd { assert!(la <= centre, "C17 west half of a facet unprojects west of its central meridian"); }
  if xa > odd { assert!(la >= centre, "C17 east half of a facet unprojects east of its central meridian"); }
  kani::cover!(y.abs() > 1.9999999999999, "next to a pole");
  kani::cover!(xa - odd == y.abs() - 2.0, "exactly on the west edge of the gore");
}

/// base_cell_from_proj_coo(x, y) for every point of the projected domain: the returned base cell's
/// diamond (centre from the integer geometry, half-diagonal 1) contains the point.
#[kani::proof] fn proj_base_cell_contains_band() { base_cell_contains(0) }
#[kani::proof] fn proj_base_cell_contains_north() { base_cell_contains(1) }
#[kani::proof] fn proj_base_cell_contains_south() { base_cell_contains(2) }
fn base_cell_contains(region: u8) {
  let x: f64 = kani::any(); let y: f64 = kani::any();
  kani::assume(x > -8.0 && x < 8.0 && y >= -2.0 && y <= 2.0);
  match region { 0 => kani::assume(y >= -1.0 && y <= 1.0), 1 => kani::assume(y > 1.0), _ => kani::assume(y < -1.0) }
  // the projected domain (the HEALPix net): the equatorial band, or inside a polar gore -- including
  // points numerically just outside a gore edge (what proj returns on the meridians k*pi/2)
  let xq = if x < 0.0 { x + 8.0 } else { x };
  let mut strictly_inside = true;
  if y > 1.0 || y < -1.0 {
    let q = (xq * 0.5) as u8;                       // gore 0..3 (4 only when x + 8 rounds to 8)
    let apex = (2 * (q & 3) + 1) as f64;
    let xr = if q >= 4 { xq - 8.0 } else { xq };
    kani::assume((xr - apex).abs() <= (2.0 - y.abs()) + 4.5e-16);
    strictly_inside = (xr - apex).abs() <= (2.0 - y.abs()) - 2.0e-15;
  }
  let b = base_cell_from_proj_coo(x, y);
  assert!(b < 12, "C17 base cell in 0..12");
  if strictly_inside {
    let (cx, cy) = sp::base_cell_center(b);
    let xp = if x < 0.0 { x + 8.0 } else { x };
    let mut dx = xp - cx as f64;
    if dx > 4.0 { dx -= 8.0; }
    if dx < -4.0 { dx += 8.0; }
    let dy = y - cy as f64;
    assert!(dx.abs() + dy.abs() <= 1.0 + 1e-15, "C17 the point lies in the diamond of the returned base cell");
  }
  let xp = xq;
  kani::cover!(region != 0 || (b == 4 && xp > 7.0), "base cell 4 reached from x close to 8");
  kani::cover!(region != 1 || y == 2.0, "north pole");
}
