//! C07 / C08 / C09 / C15 — BMOC encoding, operators, views, builders.
//! Child module of src/nested/bmoc.rs (reaches the private functions).
//!
//! Builder as contract (DESIGN §2.2): in the operator harnesses `BMOCBuilderUnsafe::{push,
//! push_raw_unsafe, to_bmoc, to_bmoc_packing}` are replaced by their contract "append
//! build_raw_value(d,h,f,depth_max) to a log" implemented on a fixed-capacity ghost log (the real
//! Vec growth on symbolic data exhausts memory in CBMC). `push`'s own contract is proved separately
//! (bmoc_push_contract), `pack`'s in bmoc_pack_*.
#![allow(static_mut_refs)]
use super::*;

// ---------------------------------------------------------------------------------------------
// spec vocabulary (total functions)
// ---------------------------------------------------------------------------------------------
pub const CAP: usize = 40;
static mut LOG: [u64; CAP] = [0; CAP];
static mut LOG_LEN: usize = 0;
static mut LOG_OVERFLOW: bool = false;

fn log_reset() { unsafe { LOG_LEN = 0; LOG_OVERFLOW = false; } }
fn log_push(raw: u64) { unsafe { if LOG_LEN < CAP { LOG[LOG_LEN] = raw; LOG_LEN += 1; } else { LOG_OVERFLOW = true; } } }
fn log_len() -> usize { unsafe { LOG_LEN } }
fn log_at(k: usize) -> u64 { unsafe { if k < CAP { LOG[k] } else { 0 } } }

/// (delta_depth, hash, full) of a raw value, by the encoding's definition:
/// raw = ((hash << 1 | 1) << (1 + 2*dd)) | flag.
fn sp_dd(raw: u64) -> u8 { ((raw >> 1).trailing_zeros() >> 1) as u8 }
fn sp_hash(raw: u64) -> u64 { let s = 2 + 2 * (sp_dd(raw) as u32); if s < 64 { raw >> s } else { 0 } }
fn sp_full(raw: u64) -> bool { raw & 1 == 1 }
pub(crate) fn n_hash(d: u8) -> u64 { if d <= 29 { 12u64 << (2 * d as u32) } else { 0 } }
/// raw is the encoding of a cell of depth <= dmax with a legal hash
fn raw_valid(raw: u64, dmax: u8) -> bool {
  let tz = (raw >> 1).trailing_zeros();
  dmax <= 29 && (raw >> 1) != 0 && tz % 2 == 0 && (tz / 2) as u8 <= dmax && sp_hash(raw) < n_hash(dmax - sp_dd(raw))
    && raw == ((((sp_hash(raw) << 1) | 1) << (1 + 2 * sp_dd(raw) as u32)) | (raw & 1))
}
/// half-open range of deepest-level (dmax) cells covered by the entry
fn lo(raw: u64) -> u64 { sp_hash(raw) << (2 * sp_dd(raw) as u32) }
fn hi(raw: u64) -> u64 { (sp_hash(raw) + 1) << (2 * sp_dd(raw) as u32) }

/// state of deepest-level cell c in a slice of entries: 0 absent, 1 partial, 2 full
/// (first covering entry; well-formed lists have at most one)
fn state_of(entries: &[u64], c: u64) -> u8 {
  let mut k = 0;
  while k < entries.len() {
    let e = entries[k];
    if lo(e) <= c && c < hi(e) { return if sp_full(e) { 2 } else { 1 }; }
    k += 1;
  }
  0
}
fn n_covering(entries: &[u64], c: u64) -> u8 {
  let mut k = 0; let mut n = 0u8;
  while k < entries.len() { let e = entries[k]; if lo(e) <= c && c < hi(e) { n += 1; } k += 1; }
  n
}
fn wf(entries: &[u64], dmax: u8) -> bool {
  let mut k = 0;
  while k < entries.len() {
    if !raw_valid(entries[k], dmax) { return false; }
    if k > 0 && !(hi(entries[k - 1]) <= lo(entries[k])) { return false; }
    k += 1;
  }
  true
}
fn log_state(c: u64) -> u8 { unsafe { state_of(&LOG[..LOG_LEN], c) } }
fn log_wf(dmax: u8) -> bool { unsafe { !LOG_OVERFLOW && wf(&LOG[..LOG_LEN], dmax) } }
/// no four consecutive entries that are the four FULL children of one parent
fn packed(entries: &[u64]) -> bool {
  let mut k = 0;
  while k + 3 < entries.len() {
    let e = entries[k];
    let dd = sp_dd(e);
    if sp_full(e) && sp_hash(e) & 3 == 0 && (sp_hash(e) >> 2) < u64::MAX // depth > 0 checked by caller through dd < dmax
      && sp_full(entries[k + 1]) && sp_dd(entries[k + 1]) == dd && sp_hash(entries[k + 1]) == sp_hash(e) + 1
      && sp_full(entries[k + 2]) && sp_dd(entries[k + 2]) == dd && sp_hash(entries[k + 2]) == sp_hash(e) + 2
      && sp_full(entries[k + 3]) && sp_dd(entries[k + 3]) == dd && sp_hash(entries[k + 3]) == sp_hash(e) + 3 {
      return false;
    }
    k += 1;
  }
  true
}
fn log_packed(dmax: u8) -> bool {
  // siblings of depth 0 (base cells) are never merged: exclude dd == dmax
  let mut k = 0;
  unsafe {
    while k + 3 < LOG_LEN {
      let e = LOG[k]; let dd = sp_dd(e);
      if dd < dmax && sp_full(e) && sp_hash(e) & 3 == 0
        && LOG[k + 1] == e + (4u64 << (2 * dd as u32)) && LOG[k + 2] == e + (8u64 << (2 * dd as u32)) && LOG[k + 3] == e + (12u64 << (2 * dd as u32)) {
        return false;
      }
      k += 1;
    }
  }
  true
}

// ---------------------------------------------------------------------------------------------
// ghost builder = CONTRACT of the real builder, tracked for ONE universally quantified deepest
// cell G_C chosen before the operator runs: instead of a list we keep (hi of the last entry,
// state of G_C, number of entries covering G_C, validity/order flag). O(1) per push, no loops.
// ---------------------------------------------------------------------------------------------
static mut G_C: u64 = 0;
static mut G_DMAX: u8 = 0;
static mut G_LAST_HI: u64 = 0;
static mut G_STATE: u8 = 0;
static mut G_COUNT: u8 = 0;
static mut G_OK: bool = true;
static mut G_NPUSH: u32 = 0;
static mut G_PARTIAL_SEEN: bool = false;
/// true iff the builder stubs are active (always under Kani; false in native playback, where the
/// real builder runs and the harness reads the real output instead of the tracker)
static mut G_STUBBED: bool = false;
fn stubbed() -> bool { unsafe { G_STUBBED } }

pub(crate) fn g_reset(c: u64, dmax: u8) { unsafe { G_C = c; G_DMAX = dmax; G_LAST_HI = 0; G_STATE = 0; G_COUNT = 0; G_OK = true; G_NPUSH = 0; G_PARTIAL_SEEN = false; } }
/// append the range [l, h) with the given state (2 full / 1 partial)
fn g_append(l: u64, h: u64, st: u8) {
  unsafe {
    if !(l >= G_LAST_HI && l < h) { G_OK = false; }
    G_LAST_HI = h;
    if l <= G_C && G_C < h { G_STATE = st; G_COUNT += 1; }
    if st == 1 { G_PARTIAL_SEEN = true; }
    G_NPUSH += 1;
  }
}
fn g_push_raw(raw: u64) {
  unsafe { if !raw_valid(raw, G_DMAX) { G_OK = false; } }
  g_append(lo(raw), hi(raw), if sp_full(raw) { 2 } else { 1 });
}
pub(crate) fn g_snapshot() -> (u64, u8, u8, bool) { unsafe { (G_LAST_HI, G_STATE, G_COUNT, G_OK) } }
pub(crate) fn g_npush() -> u32 { unsafe { G_NPUSH } }
impl BMOCBuilderUnsafe { pub(crate) fn depth_max_is(&self, d: u8) -> bool { self.depth_max == d } }

pub(crate) fn ghost_new(depth_max: u8, _capacity: usize) -> BMOCBuilderUnsafe { unsafe { G_STUBBED = true; } BMOCBuilderUnsafe { depth_max, entries: None } }
pub(crate) fn ghost_push(b: &mut BMOCBuilderUnsafe, depth: u8, hash: u64, is_full: bool) -> &mut BMOCBuilderUnsafe {
  assert!(depth <= b.depth_max, "C09 pushed depth <= depth_max");
  assert!(hash < n_hash(depth), "C09 pushed hash < 12*4^depth");
  let dd = b.depth_max - depth;
  g_append(shl(hash, dd), shl(hash + 1, dd), if is_full { 2 } else { 1 });
  b
}
fn ghost_push_raw(b: &mut BMOCBuilderUnsafe, raw: u64) -> &mut BMOCBuilderUnsafe { g_push_raw(raw); b }
/// contract of push_all: the cells from_hash..to_hash of the given depth, in order, all with the given flag
pub(crate) fn ghost_push_all(b: &mut BMOCBuilderUnsafe, depth: u8, from_hash: u64, to_hash: u64, are_full: bool) -> &mut BMOCBuilderUnsafe {
  assert!(depth <= b.depth_max && to_hash <= n_hash(depth), "C09 push_all range in range");
  let dd = b.depth_max - depth;
  if from_hash < to_hash { g_append(shl(from_hash, dd), shl(to_hash, dd), if are_full { 2 } else { 1 }); }
  b
}
fn ghost_to_bmoc(b: &mut BMOCBuilderUnsafe) -> BMOC { BMOC { depth_max: b.depth_max, entries: Box::new([]) } }

/// Same observable behaviour as <BMOCIter as Iterator>::next (first remaining raw value decoded by
/// Cell::new, iterator advanced by one), written with slice splitting instead of core's raw-pointer
/// iterator: symbolic execution of core::slice::Iter::next dominated the run time.
fn ghost_iter_next<'a>(it: &mut BMOCIter<'a>) -> Option<Cell> where 'a: 'a {
  let s = it.iter.as_slice();
  if s.is_empty() { None } else {
    let raw = s[0];
    it.iter = s[1..].iter();
    Some(Cell::new(raw, it.depth_max))
  }
}

pub(crate) fn shl(h: u64, dd: u8) -> u64 { if dd <= 30 { h << (2 * dd as u32) } else { 0 } }

/// CONTRACT of go_down (tile form): logs cells of flag `flag` tiling exactly
/// [lo(start), lo(target)) in z-order, then (d,h) := target. Preconditions are what every call
/// site must establish (asserted here, so a call site that breaks them is reported).
fn ghost_go_down(sd: &mut u8, sh: &mut u64, td: u8, th: u64, flag: bool, b: &mut BMOCBuilderUnsafe) {
  let dm = b.depth_max;
  assert!(*sd <= td && td <= dm && dm <= 29, "go_down requires start depth <= target depth <= depth_max");
  assert!(*sh <= n_hash(*sd) && th <= n_hash(td), "go_down requires hashes in range");
  let lo_s = shl(*sh, dm - *sd); let lo_t = shl(th, dm - td);
  assert!(lo_s <= lo_t, "go_down requires the target not to be before the start");
  if lo_s < lo_t { g_append(lo_s, lo_t, if flag { 2 } else { 1 }); }
  *sd = td; *sh = th;
}
/// CONTRACT of go_up: logs cells tiling [hi(start), hi(ancestor of start, dd levels up)), then
/// (d,h) := (d - dd, (h >> 2dd) + 1).
fn ghost_go_up(sd: &mut u8, sh: &mut u64, dd: u8, flag: bool, b: &mut BMOCBuilderUnsafe) {
  let dm = b.depth_max;
  assert!(dd <= *sd && *sd <= dm && dm <= 29, "go_up requires delta_depth <= start depth <= depth_max");
  assert!(*sh < n_hash(*sd), "go_up requires a valid start cell");
  let hi_s = shl(*sh + 1, dm - *sd);
  let nd = *sd - dd; let nh = (*sh >> (2 * dd as u32)) + 1;
  let lo_n = shl(nh, dm - nd);
  if hi_s < lo_n { g_append(hi_s, lo_n, if flag { 2 } else { 1 }); }
  *sd = nd; *sh = nh;
}

// ---------------------------------------------------------------------------------------------
// C09 encoding: build_raw_value / Cell::new / accessors are mutually inverse
// ---------------------------------------------------------------------------------------------
#[kani::proof]
fn bmoc_encoding_inverse() {
  let dmax: u8 = kani::any(); let d: u8 = kani::any(); let h: u64 = kani::any(); let f: bool = kani::any();
  kani::assume(dmax <= 29 && d <= dmax && h < n_hash(d));
  let raw = build_raw_value(d, h, f, dmax);
  assert!(raw_valid(raw, dmax), "C09 encoded entry is valid");
  let c = Cell::new(raw, dmax);
  assert!(c.depth == d && c.hash == h && c.is_full == f && c.raw_value == raw, "C09 Cell::new inverts build_raw_value");
  assert!(get_depth(raw, dmax) == d && get_hash_from_delta_depth(raw, dmax - d) == h && is_partial(raw) == !f, "C09 accessors agree with Cell::new");
  assert!(sp_dd(raw) == dmax - d && sp_hash(raw) == h && sp_full(raw) == f);
  // order lemma: raw order == z-order of the first deepest cell (for disjoint cells)
  let d2: u8 = kani::any(); let h2: u64 = kani::any(); let f2: bool = kani::any();
  kani::assume(d2 <= dmax && h2 < n_hash(d2));
  let raw2 = build_raw_value(d2, h2, f2, dmax);
  if hi(raw) <= lo(raw2) { assert!(raw < raw2, "C09 raw order == z-order for disjoint cells"); }
  kani::cover!(d == 0 && dmax == 29 && h == 11); kani::cover!(d == 29 && h == n_hash(29) - 1 && f);
}

#[kani::proof]
fn bmoc_encoding_canary() {
  let dmax: u8 = kani::any(); let d: u8 = kani::any(); let h: u64 = kani::any();
  kani::assume(dmax <= 29 && d <= dmax && h < n_hash(d));
  let c = Cell::new(build_raw_value(d, h, true, dmax), dmax);
  assert!(c.depth == d && c.hash == h + 1, "CANARY wrong hash must be refuted");
}

/// every valid raw value decodes to a cell that re-encodes to itself (decode is total on valid entries)
#[kani::proof]
fn bmoc_decode_encode() {
  let dmax: u8 = kani::any(); let raw: u64 = kani::any();
  kani::assume(raw_valid(raw, dmax));
  let c = Cell::new(raw, dmax);
  assert!(c.depth <= dmax && c.hash < n_hash(c.depth), "C09 decoded cell in range");
  assert!(build_raw_value(c.depth, c.hash, c.is_full, dmax) == raw, "C09 build_raw_value inverts Cell::new on valid entries");
  kani::cover!(c.depth == 0); kani::cover!(c.depth == 29);
}

// ---------------------------------------------------------------------------------------------
// symbolic well-formed operands, built from structured (depth, hash, flag) triples so that the
// high bits of every value are structurally zero (keeps the SAT encoding small)
// ---------------------------------------------------------------------------------------------
#[derive(Clone, Copy)]
struct E { d: u8, h: u64, f: bool }
struct Op { dmax: u8, n: usize, e: [E; 3], bmoc: BMOC }
fn e_lo(e: &E, dmax: u8) -> u64 { shl(e.h, dmax - e.d) }
fn e_hi(e: &E, dmax: u8) -> u64 { shl(e.h + 1, dmax - e.d) }
fn any_e(dmax: u8) -> E {
  let d: u8 = kani::any(); let f: bool = kani::any();
  let h: u64 = if dmax <= 3 { let x: u16 = kani::any(); x as u64 } else { kani::any() };
  kani::assume(d <= dmax && h < n_hash(d));
  E { d, h, f }
}
fn any_op(dmax: u8, n: usize) -> Op {
  // the NUMBER of entries is concrete per harness (symbolic lengths make symbolic execution of the
  // nested iterator loops explode); contents, depths and flags are symbolic
  let e = [any_e(dmax), any_e(dmax), any_e(dmax)];
  if n >= 2 { kani::assume(e_hi(&e[0], dmax) <= e_lo(&e[1], dmax)); }
  if n >= 3 { kani::assume(e_hi(&e[1], dmax) <= e_lo(&e[2], dmax)); }
  let r = [build_raw_value(e[0].d, e[0].h, e[0].f, dmax), build_raw_value(e[1].d, e[1].h, e[1].f, dmax), build_raw_value(e[2].d, e[2].h, e[2].f, dmax)];
  let entries: Box<[u64]> = match n { 0 => Box::new([]), 1 => Box::new([r[0]]), 2 => Box::new([r[0], r[1]]), _ => Box::new([r[0], r[1], r[2]]) };
  Op { dmax, n, e, bmoc: BMOC { depth_max: dmax, entries } }
}
fn all_full(o: &Op) -> bool { (o.n < 1 || o.e[0].f) && (o.n < 2 || o.e[1].f) && (o.n < 3 || o.e[2].f) }
/// state of deepest cell c (at depth dm >= o.dmax) in operand o
fn st(o: &Op, c: u64, dm: u8) -> u8 {
  let cc = c >> (2 * (dm - o.dmax) as u32);
  let mut k = 0;
  while k < 3 {
    if k < o.n && e_lo(&o.e[k], o.dmax) <= cc && cc < e_hi(&o.e[k], o.dmax) { return if o.e[k].f { 2 } else { 1 }; }
    k += 1;
  }
  0
}

fn op_and(a: u8, b: u8) -> u8 { if a < b { a } else { b } }
fn op_or(a: u8, b: u8) -> u8 { if a > b { a } else { b } }
fn op_xor(a: u8, b: u8) -> u8 {
  if a == 0 { b } else if b == 0 { a } else if a == 2 && b == 2 { 0 } else { 1 }
}
fn op_not(a: u8) -> u8 { 2 - a }

// ---------------------------------------------------------------------------------------------
// refinement: the real go_down / go_up implement their tile contracts (push stubbed by the tracker),
// for every depth_max <= 29, every start/target, both flags.
// ---------------------------------------------------------------------------------------------
fn arb_tracker(dm: u8) {
  let c: u64 = kani::any();
  kani::assume(c < n_hash(dm));
  g_reset(c, dm);
  unsafe { G_LAST_HI = kani::any(); G_STATE = kani::any(); G_COUNT = kani::any(); kani::assume(G_STATE <= 2 && G_COUNT <= 4 && G_LAST_HI <= n_hash(dm)); }
}
#[kani::proof]
#[kani::stub(BMOCBuilderUnsafe::push, ghost_push)]
#[kani::unwind(14)]
fn bmoc_go_down_refines() { go_down_refines(0, 3) }
#[kani::proof]
#[kani::stub(BMOCBuilderUnsafe::push, ghost_push)]
#[kani::unwind(32)]
fn bmoc_go_down_refines_deep() { go_down_refines(4, 29) }
fn go_down_refines(dlo: u8, dhi: u8) {
  let dm: u8 = kani::any(); kani::assume(dlo <= dm && dm <= dhi);
  arb_tracker(dm);
  let mut b = BMOCBuilderUnsafe { depth_max: dm, entries: None };
  let sd: u8 = kani::any(); let sh: u64 = kani::any(); let td: u8 = kani::any(); let th: u64 = kani::any(); let flag: bool = kani::any();
  kani::assume(sd <= td && td <= dm && sh <= n_hash(sd) && th <= n_hash(td));
  kani::assume(shl(sh, dm - sd) <= shl(th, dm - td));
  kani::assume(shl(sh, dm - sd) >= unsafe { G_LAST_HI });
  // bound of the first level established by every call site: the target is under the parent of the
  // start cell (<= 3 siblings to add), or the start is a base cell (<= 12)
  let t_at_sd = th >> (2 * (td - sd) as u32);
  kani::assume(t_at_sd - sh <= 3 || (sd == 0 && t_at_sd <= 12));
  let before = g_snapshot();
  let (mut d1, mut h1) = (sd, sh);
  go_down(&mut d1, &mut h1, td, th, flag, &mut b);
  let real = g_snapshot();
  unsafe { G_LAST_HI = before.0; G_STATE = before.1; G_COUNT = before.2; G_OK = before.3; }
  let (mut d2, mut h2) = (sd, sh);
  ghost_go_down(&mut d2, &mut h2, td, th, flag, &mut b);
  let spec = g_snapshot();
  assert!(d1 == d2 && h1 == h2, "go_down ends on the target cell");
  assert!(real.3 && spec.3, "go_down pushes valid cells in strictly increasing, disjoint order");
  assert!(real.1 == spec.1 && real.2 == spec.2, "go_down covers exactly [lo(start), lo(target)) with the given flag");
  assert!(real.0 == spec.0 || shl(sh, dm - sd) == shl(th, dm - td), "go_down stops exactly at lo(target)");
  kani::cover!(td == sd + 2 && real.2 == before.2 + 1, "two levels down, tracked cell covered");
  kani::cover!(sd == 0 && td == 0 && t_at_sd - sh == 12);
}
#[kani::proof]
#[kani::stub(BMOCBuilderUnsafe::push, ghost_push)]
#[kani::unwind(14)]
fn bmoc_go_up_refines() { go_up_refines(0, 3) }
#[kani::proof]
#[kani::stub(BMOCBuilderUnsafe::push, ghost_push)]
#[kani::unwind(32)]
fn bmoc_go_up_refines_deep() { go_up_refines(4, 29) }
fn go_up_refines(dlo: u8, dhi: u8) {
  let dm: u8 = kani::any(); kani::assume(dlo <= dm && dm <= dhi);
  arb_tracker(dm);
  let mut b = BMOCBuilderUnsafe { depth_max: dm, entries: None };
  let sd: u8 = kani::any(); let sh: u64 = kani::any(); let dd: u8 = kani::any(); let flag: bool = kani::any();
  kani::assume(dd <= sd && sd <= dm && sh < n_hash(sd));
  kani::assume(shl(sh + 1, dm - sd) >= unsafe { G_LAST_HI });
  let before = g_snapshot();
  let (mut d1, mut h1) = (sd, sh);
  go_up(&mut d1, &mut h1, dd, flag, &mut b);
  let real = g_snapshot();
  unsafe { G_LAST_HI = before.0; G_STATE = before.1; G_COUNT = before.2; G_OK = before.3; }
  let (mut d2, mut h2) = (sd, sh);
  ghost_go_up(&mut d2, &mut h2, dd, flag, &mut b);
  let spec = g_snapshot();
  assert!(d1 == d2 && h1 == h2, "go_up ends on (d - dd, (h >> 2dd) + 1)");
  assert!(real.3 && spec.3, "go_up pushes valid cells in strictly increasing, disjoint order");
  assert!(real.1 == spec.1 && real.2 == spec.2, "go_up covers exactly [hi(start), hi(ancestor)) with the given flag");
  assert!(real.0 == spec.0, "go_up stops exactly at hi(ancestor)");
  kani::cover!(dd == 3 && real.2 == before.2 + 1);
  kani::cover!(dd == 0);
}
/// dd_4_go_up(d,h,nd,nh): number of levels to climb from (d,h) so that the next cell (nd,nh), which
/// lies after (d,h) and does not overlap it, is under the parent of the reached cell -- i.e. the
/// reached depth is one below the deepest common ancestor (clipped at depth 0).
#[kani::proof]
fn bmoc_dd_4_go_up_contract() {
  let d: u8 = kani::any(); let h: u64 = kani::any(); let nd: u8 = kani::any(); let nh: u64 = kani::any();
  kani::assume(d <= 29 && nd <= 29 && h < n_hash(d) && nh < n_hash(nd));
  // (nd,nh) strictly after (d,h), disjoint
  let m = if d > nd { d } else { nd };
  kani::assume(shl(h + 1, m - d) <= shl(nh, m - nd));
  let dd = dd_4_go_up(d, h, nd, nh);
  assert!(dd <= d, "dd_4_go_up <= current depth");
  let rd = d - dd;                       // depth reached after go_up
  let rh = (h >> (2 * dd as u32)) + 1;   // cell reached
  // the next cell, seen at depth rd (or its ancestor at depth rd if deeper), is at or after rh ...
  let n_at_rd = if nd >= rd { nh >> (2 * (nd - rd) as u32) } else { nh << (2 * (rd - nd) as u32) };
  assert!(n_at_rd >= rh || nd < rd, "reached cell is not past the next cell");
  // ... and under the same parent as the reached cell (unless we are at depth 0): go_down then adds <= 3 siblings
  if rd > 0 && nd >= rd { assert!((n_at_rd >> 2) == ((rh - 1) >> 2), "next cell is under the parent of the reached cell"); }
  if nd < rd { assert!(false, "dd_4_go_up must climb at least to the depth of a shallower next cell"); }
  // minimality: one level less would not be enough (the next cell would not be under that parent)
  if dd > 0 {
    let rd1 = rd + 1;
    let prev = h >> (2 * (dd - 1) as u32);
    let n_at_rd1 = if nd >= rd1 { nh >> (2 * (nd - rd1) as u32) } else { u64::MAX };
    assert!(nd < rd1 || (n_at_rd1 >> 2) != (prev >> 2), "dd_4_go_up climbs no more than needed");
  }
  kani::cover!(dd == 0 && d > 0); kani::cover!(dd == d && d > 2); kani::cover!(nd < d);
}

// ---------------------------------------------------------------------------------------------
// C07/C08 operators against the pointwise three-valued tables (callees replaced by their contracts)
// ---------------------------------------------------------------------------------------------
fn check_binary(which: u8, dmax_bound: u8, na: usize, nb: usize, only_full: bool) {
  let dmaxa: u8 = kani::any(); let dmaxb: u8 = kani::any();
  kani::assume(dmaxa <= dmax_bound && dmaxb <= dmax_bound);
  let a = any_op(dmaxa, na);
  let b = any_op(dmaxb, nb);
  if only_full { kani::assume(all_full(&a) && all_full(&b)); }
  let dm = if dmaxa > dmaxb { dmaxa } else { dmaxb };
  let c: u64 = kani::any();
  kani::assume(c < n_hash(dm));
  g_reset(c, dm);
  let out = match which { 0 => a.bmoc.and(&b.bmoc), 1 => a.bmoc.or(&b.bmoc), _ => a.bmoc.xor(&b.bmoc) };
  let sa = st(&a, c, dm); let sb = st(&b, c, dm);
  let expect = match which { 0 => op_and(sa, sb), 1 => op_or(sa, sb), _ => op_xor(sa, sb) };
  let (_, state, count, ok) = if stubbed() { g_snapshot() } else { (0, state_of(&out.entries, c), n_covering(&out.entries, c), wf(&out.entries, dm) && out.depth_max == dm) };
  assert!(ok, "C09 operator output is well formed (valid entries, strictly increasing, disjoint)");
  assert!(count <= 1, "C09 no deepest cell is covered twice");
  assert!(state == expect, "C07/C08 operator == documented pointwise table on every deepest cell");
  if all_full(&a) && all_full(&b) { assert!(state != 1 && (!stubbed() || unsafe { !G_PARTIAL_SEEN }), "C07 all-full operands give an all-full result"); }
  kani::cover!(na == 0 || nb == 0 || (sa != 0 && sb != 0), "overlapping operands");
  kani::cover!(dmaxa != dmaxb || dmax_bound == 0, "operands of different maximal depth");
}

macro_rules! bin_harness {
  ($name:ident, $which:literal, $dm:literal, $na:literal, $nb:literal, $full:literal, $uw:literal) => {
    #[kani::proof]
    #[kani::stub(BMOCBuilderUnsafe::new, ghost_new)]
    #[kani::stub(BMOCBuilderUnsafe::push, ghost_push)]
    #[kani::stub(BMOCBuilderUnsafe::push_raw_unsafe, ghost_push_raw)]
    #[kani::stub(BMOCBuilderUnsafe::to_bmoc, ghost_to_bmoc)]
    #[kani::stub(BMOCBuilderUnsafe::to_bmoc_packing, ghost_to_bmoc)]
    #[kani::stub(go_down, ghost_go_down)]
    #[kani::stub(go_up, ghost_go_up)]
    #[kani::stub(<BMOCIter as std::iter::Iterator>::next, ghost_iter_next)]
    #[kani::unwind($uw)]
    fn $name() { check_binary($which, $dm, $na, $nb, $full) }
  };
}
bin_harness!(bmoc_and_0x0, 0, 3, 0, 0, false, 5);
bin_harness!(bmoc_and_0x1, 0, 3, 0, 1, false, 5);
bin_harness!(bmoc_and_0x2, 0, 3, 0, 2, false, 5);
bin_harness!(bmoc_and_0x3, 0, 3, 0, 3, false, 5);
bin_harness!(bmoc_and_1x0, 0, 3, 1, 0, false, 5);
bin_harness!(bmoc_and_1x1, 0, 3, 1, 1, false, 5);
bin_harness!(bmoc_and_1x2, 0, 3, 1, 2, false, 5);
bin_harness!(bmoc_and_1x3, 0, 3, 1, 3, false, 6);
bin_harness!(bmoc_and_2x0, 0, 3, 2, 0, false, 5);
bin_harness!(bmoc_and_2x1, 0, 3, 2, 1, false, 5);
bin_harness!(bmoc_and_2x2, 0, 3, 2, 2, false, 6);
bin_harness!(bmoc_and_2x3, 0, 3, 2, 3, false, 7);
bin_harness!(bmoc_and_3x0, 0, 3, 3, 0, false, 5);
bin_harness!(bmoc_and_3x1, 0, 3, 3, 1, false, 6);
bin_harness!(bmoc_and_3x2, 0, 3, 3, 2, false, 7);
bin_harness!(bmoc_and_3x3, 0, 3, 3, 3, false, 8);
bin_harness!(bmoc_or_0x0, 1, 3, 0, 0, false, 5);
bin_harness!(bmoc_or_0x1, 1, 3, 0, 1, false, 5);
bin_harness!(bmoc_or_0x2, 1, 3, 0, 2, false, 5);
bin_harness!(bmoc_or_0x3, 1, 3, 0, 3, false, 5);
bin_harness!(bmoc_or_1x0, 1, 3, 1, 0, false, 5);
bin_harness!(bmoc_or_1x1, 1, 3, 1, 1, false, 5);
bin_harness!(bmoc_or_1x2, 1, 3, 1, 2, false, 5);
bin_harness!(bmoc_or_1x3, 1, 3, 1, 3, false, 6);
bin_harness!(bmoc_or_2x0, 1, 3, 2, 0, false, 5);
bin_harness!(bmoc_or_2x1, 1, 3, 2, 1, false, 5);
bin_harness!(bmoc_or_2x2, 1, 3, 2, 2, false, 6);
bin_harness!(bmoc_or_2x3, 1, 3, 2, 3, false, 7);
bin_harness!(bmoc_or_3x0, 1, 3, 3, 0, false, 5);
bin_harness!(bmoc_or_3x1, 1, 3, 3, 1, false, 6);
bin_harness!(bmoc_or_3x2, 1, 3, 3, 2, false, 7);
bin_harness!(bmoc_or_3x3, 1, 3, 3, 3, false, 8);
bin_harness!(bmoc_xor_0x0, 2, 3, 0, 0, false, 5);
bin_harness!(bmoc_xor_0x1, 2, 3, 0, 1, false, 5);
bin_harness!(bmoc_xor_0x2, 2, 3, 0, 2, false, 5);
bin_harness!(bmoc_xor_0x3, 2, 3, 0, 3, false, 5);
bin_harness!(bmoc_xor_1x0, 2, 3, 1, 0, false, 5);
bin_harness!(bmoc_xor_1x1, 2, 3, 1, 1, false, 5);
bin_harness!(bmoc_xor_1x2, 2, 3, 1, 2, false, 5);
bin_harness!(bmoc_xor_1x3, 2, 3, 1, 3, false, 6);
bin_harness!(bmoc_xor_2x0, 2, 3, 2, 0, false, 5);
bin_harness!(bmoc_xor_2x1, 2, 3, 2, 1, false, 5);
bin_harness!(bmoc_xor_2x2, 2, 3, 2, 2, false, 6);
bin_harness!(bmoc_xor_2x3, 2, 3, 2, 3, false, 7);
bin_harness!(bmoc_xor_3x0, 2, 3, 3, 0, false, 5);
bin_harness!(bmoc_xor_3x1, 2, 3, 3, 1, false, 6);
bin_harness!(bmoc_xor_3x2, 2, 3, 3, 2, false, 7);
bin_harness!(bmoc_xor_3x3, 2, 3, 3, 3, false, 8);
bin_harness!(bmoc_and_full_0x0, 0, 3, 0, 0, true, 5);
bin_harness!(bmoc_and_full_0x1, 0, 3, 0, 1, true, 5);
bin_harness!(bmoc_and_full_0x2, 0, 3, 0, 2, true, 5);
bin_harness!(bmoc_and_full_1x0, 0, 3, 1, 0, true, 5);
bin_harness!(bmoc_and_full_1x1, 0, 3, 1, 1, true, 5);
bin_harness!(bmoc_and_full_1x2, 0, 3, 1, 2, true, 5);
bin_harness!(bmoc_and_full_2x0, 0, 3, 2, 0, true, 5);
bin_harness!(bmoc_and_full_2x1, 0, 3, 2, 1, true, 5);
bin_harness!(bmoc_and_full_2x2, 0, 3, 2, 2, true, 6);
bin_harness!(bmoc_or_full_0x0, 1, 3, 0, 0, true, 5);
bin_harness!(bmoc_or_full_0x1, 1, 3, 0, 1, true, 5);
bin_harness!(bmoc_or_full_0x2, 1, 3, 0, 2, true, 5);
bin_harness!(bmoc_or_full_1x0, 1, 3, 1, 0, true, 5);
bin_harness!(bmoc_or_full_1x1, 1, 3, 1, 1, true, 5);
bin_harness!(bmoc_or_full_1x2, 1, 3, 1, 2, true, 5);
bin_harness!(bmoc_or_full_2x0, 1, 3, 2, 0, true, 5);
bin_harness!(bmoc_or_full_2x1, 1, 3, 2, 1, true, 5);
bin_harness!(bmoc_or_full_2x2, 1, 3, 2, 2, true, 6);
bin_harness!(bmoc_xor_full_0x0, 2, 3, 0, 0, true, 5);
bin_harness!(bmoc_xor_full_0x1, 2, 3, 0, 1, true, 5);
bin_harness!(bmoc_xor_full_0x2, 2, 3, 0, 2, true, 5);
bin_harness!(bmoc_xor_full_1x0, 2, 3, 1, 0, true, 5);
bin_harness!(bmoc_xor_full_1x1, 2, 3, 1, 1, true, 5);
bin_harness!(bmoc_xor_full_1x2, 2, 3, 1, 2, true, 5);
bin_harness!(bmoc_xor_full_2x0, 2, 3, 2, 0, true, 5);
bin_harness!(bmoc_xor_full_2x1, 2, 3, 2, 1, true, 5);
bin_harness!(bmoc_xor_full_2x2, 2, 3, 2, 2, true, 6);

fn check_not(dmax_lo: u8, dmax_hi: u8, n: usize) {
  let dmax: u8 = kani::any();
  kani::assume(dmax_lo <= dmax && dmax <= dmax_hi);
  let a = any_op(dmax, n);
  let c: u64 = kani::any();
  kani::assume(c < n_hash(dmax));
  g_reset(c, dmax);
  let out = a.bmoc.not();
  let (last_hi, state, count, ok) = if stubbed() { g_snapshot() } else { (0, state_of(&out.entries, c), n_covering(&out.entries, c), wf(&out.entries, dmax) && out.depth_max == dmax) };
  assert!(ok, "C09 not() output is well formed");
  assert!(count <= 1, "C09 no deepest cell is covered twice");
  assert!(state == op_not(st(&a, c, dmax)), "C07/C08 not: absent <-> full, partial kept, on every deepest cell");
  assert!(last_hi <= n_hash(dmax), "C09 output stays inside the sphere");
  kani::cover!(n == 0 || !a.e[0].f, "partial entry"); kani::cover!(n == 0 || a.e[0].d == dmax, "deepest-level entry");
}
macro_rules! not_harness {
  ($name:ident, $dlo:literal, $dhi:literal, $n:literal, $uw:literal) => {
    #[kani::proof]
    #[kani::stub(BMOCBuilderUnsafe::new, ghost_new)]
    #[kani::stub(BMOCBuilderUnsafe::push, ghost_push)]
    #[kani::stub(BMOCBuilderUnsafe::push_raw_unsafe, ghost_push_raw)]
    #[kani::stub(BMOCBuilderUnsafe::to_bmoc, ghost_to_bmoc)]
    #[kani::stub(go_down, ghost_go_down)]
    #[kani::stub(go_up, ghost_go_up)]
    #[kani::unwind($uw)]
    fn $name() { check_not($dlo, $dhi, $n) }
  };
}
not_harness!(bmoc_not_0, 0, 3, 0, 14);
not_harness!(bmoc_not_0_deep, 27, 29, 0, 14);
not_harness!(bmoc_not_1, 0, 3, 1, 14);
not_harness!(bmoc_not_1_deep, 27, 29, 1, 14);
not_harness!(bmoc_not_2, 0, 3, 2, 14);
not_harness!(bmoc_not_2_deep, 27, 29, 2, 14);
not_harness!(bmoc_not_3, 0, 3, 3, 14);
not_harness!(bmoc_not_3_deep, 27, 29, 3, 14);

// ---------------------------------------------------------------------------------------------
// C09 views of a well-formed BMOC agree (bounded: n entries, depth_max <= 2)
// ---------------------------------------------------------------------------------------------
fn check_views(n: usize) {
  let dmax: u8 = kani::any();
  kani::assume(dmax <= 2);
  let a = any_op(dmax, n);
  let c: u64 = kani::any();
  kani::assume(c < n_hash(dmax));
  let sc = st(&a, c, dmax);
  // deep_size == sum of 4^(dmax - d)
  let mut expect_size = 0usize; let mut k = 0;
  while k < 3 { if k < n { expect_size += 1usize << (2 * (dmax - a.e[k].d) as u32); } k += 1; }
  assert!(a.bmoc.deep_size() == expect_size, "C09 deep_size == number of deepest-level cells");
  // into_iter yields the entries, decoded
  let mut it = (&a.bmoc).into_iter(); let mut k = 0;
  while k < 3 { if k < n { match it.next() { Some(cell) => assert!(cell.depth == a.e[k].d && cell.hash == a.e[k].h && cell.is_full == a.e[k].f, "C09 cell iterator == entries"), None => assert!(false, "C09 cell iterator too short") } } k += 1; }
  assert!(it.next().is_none(), "C09 cell iterator ends with the entries");
  // flat_iter: strictly increasing, only covered cells, c seen iff covered, length == deep_size
  let fi = a.bmoc.flat_iter();
  assert!(fi.size_hint() == (expect_size, Some(expect_size)), "C09 flat_iter size_hint == deep_size");
  let mut prev: Option<u64> = None; let mut seen = false; let mut count = 0usize;
  for h in fi {
    if let Some(p) = prev { assert!(h > p, "C09 flat_iter strictly increasing (sorted, no duplicates)"); }
    assert!(st(&a, h, dmax) != 0, "C09 flat_iter yields only covered cells");
    if h == c { seen = true; }
    prev = Some(h); count += 1;
  }
  assert!(count == expect_size, "C09 flat_iter length == deep_size");
  assert!(seen == (sc != 0), "C09 flat_iter yields every covered cell");
  // flat_iter_cell: same set, flags == state
  let mut prev: Option<u64> = None; let mut seen = false; let mut count = 0usize;
  for cell in a.bmoc.flat_iter_cell() {
    if let Some(p) = prev { assert!(cell.hash > p, "C09 flat_iter_cell strictly increasing"); }
    assert!(cell.depth == dmax, "C09 flat_iter_cell yields deepest-level cells");
    let s = st(&a, cell.hash, dmax);
    assert!(s != 0 && cell.is_full == (s == 2), "C09 flat_iter_cell flag == state of the cell");
    if cell.hash == c { seen = true; }
    prev = Some(cell.hash); count += 1;
  }
  assert!(count == expect_size && seen == (sc != 0), "C09 flat_iter_cell describes the same set");
  kani::cover!(n == 0 || (a.e[0].d < dmax && sc == 1) || dmax == 0, "coarse partial entry");
}
fn check_ranges(n: usize) {
  let dmax: u8 = kani::any();
  kani::assume(dmax <= 2);
  let a = any_op(dmax, n);
  let c: u64 = kani::any();
  kani::assume(c < n_hash(dmax));
  let sc = st(&a, c, dmax);
  let rs = a.bmoc.to_ranges();
  assert!(rs.len() <= n, "C09 no more ranges than entries");
  let mut inside = false; let mut k = 0;
  while k < 3 {
    if k < rs.len() {
      assert!(rs[k].start < rs[k].end && rs[k].end <= n_hash(dmax), "C09 ranges non-empty, inside the sphere");
      if k > 0 { assert!(rs[k - 1].end < rs[k].start, "C09 ranges ascending, disjoint and non-adjacent"); }
      if rs[k].start <= c && c < rs[k].end { inside = true; }
    }
    k += 1;
  }
  assert!(inside == (sc != 0), "C09 union of the ranges == set of covered deepest cells");
  kani::cover!(n < 2 || rs.len() == 1, "two adjacent entries merged into one range");
}
// to_flat_array (flat_iter collected into a Vec of symbolic capacity) did not finish in CBMC (400 s): not registered.
#[kani::proof] #[kani::unwind(36)] fn bmoc_views_0() { check_views(0) }
#[kani::proof] #[kani::unwind(36)] fn bmoc_views_1() { check_views(1) }
#[kani::proof] #[kani::unwind(36)] fn bmoc_views_2() { check_views(2) }
#[kani::proof] #[kani::unwind(6)] fn bmoc_ranges_0() { check_ranges(0) }
#[kani::proof] #[kani::unwind(6)] fn bmoc_ranges_1() { check_ranges(1) }
#[kani::proof] #[kani::unwind(6)] fn bmoc_ranges_2() { check_ranges(2) }
#[kani::proof] #[kani::unwind(6)] fn bmoc_ranges_3() { check_ranges(3) }

// ---------------------------------------------------------------------------------------------
// C15 builders (bounded): pack, to_lower_depth, fixed-depth builder
// ---------------------------------------------------------------------------------------------
struct OpN { dmax: u8, n: usize, e: [E; 5], raw: [u64; 5] }
fn any_opn(dmax: u8, n: usize) -> OpN {
  let e = [any_e(dmax), any_e(dmax), any_e(dmax), any_e(dmax), any_e(dmax)];
  let mut k = 1;
  while k < 5 { if k < n { kani::assume(e_hi(&e[k - 1], dmax) <= e_lo(&e[k], dmax)); } k += 1; }
  let mut raw = [0u64; 5];
  let mut k = 0;
  while k < 5 { raw[k] = build_raw_value(e[k].d, e[k].h, e[k].f, dmax); k += 1; }
  OpN { dmax, n, e, raw }
}
fn stn(o: &OpN, c: u64) -> u8 {
  let mut k = 0;
  while k < 5 { if k < o.n && e_lo(&o.e[k], o.dmax) <= c && c < e_hi(&o.e[k], o.dmax) { return if o.e[k].f { 2 } else { 1 }; } k += 1; }
  0
}
fn vec_of(o: &OpN) -> Vec<u64> {
  match o.n { 0 => vec![], 1 => vec![o.raw[0]], 2 => vec![o.raw[0], o.raw[1]], 3 => vec![o.raw[0], o.raw[1], o.raw[2]],
              4 => vec![o.raw[0], o.raw[1], o.raw[2], o.raw[3]], _ => vec![o.raw[0], o.raw[1], o.raw[2], o.raw[3], o.raw[4]] }
}
fn is_packed(v: &[u64], dmax: u8) -> bool {
  let mut k = 0;
  while k + 3 < v.len() {
    let e = v[k]; let dd = sp_dd(e);
    if dd < dmax && sp_full(e) && sp_hash(e) & 3 == 0 && sp_full(v[k + 1]) && sp_full(v[k + 2]) && sp_full(v[k + 3])
      && sp_dd(v[k + 1]) == dd && sp_dd(v[k + 2]) == dd && sp_dd(v[k + 3]) == dd
      && sp_hash(v[k + 1]) == sp_hash(e) + 1 && sp_hash(v[k + 2]) == sp_hash(e) + 2 && sp_hash(v[k + 3]) == sp_hash(e) + 3 { return false; }
    k += 1;
  }
  true
}

/// pack: the cell -> state map is unchanged, the result is well formed and has no four full siblings
fn check_pack(n: usize) {
  let dmax: u8 = kani::any();
  kani::assume(1 <= dmax && dmax <= 2);
  let a = any_opn(dmax, n);
  let c: u64 = kani::any();
  kani::assume(c < n_hash(dmax));
  let mut b = BMOCBuilderUnsafe { depth_max: dmax, entries: Some(vec_of(&a)) };
  let out = b.pack();
  assert!(wf(&out, dmax), "C15/C09 pack output well formed");
  assert!(state_of(&out, c) == stn(&a, c), "C15 pack never changes the cell -> state map");
  assert!(is_packed(&out, dmax), "C15/C06 pack leaves no four full siblings");
  assert!(out.len() <= n, "pack never adds entries");
  kani::cover!(n < 4 || out.len() + 3 == n, "one merge happened");
  kani::cover!(n < 5 || (out.len() == 2 && dmax == 2), "merge plus another entry");
}
#[kani::proof] #[kani::unwind(6)] fn bmoc_pack_3() { check_pack(3) }
#[kani::proof] #[kani::unwind(6)] fn bmoc_pack_4() { check_pack(4) }
#[kani::proof] #[kani::unwind(7)] fn bmoc_pack_5() { check_pack(5) }

/// to_lower_depth(nd): a coarse cell is present iff it contained something; full iff it was an
/// entry of depth <= nd that was full (a group of deeper cells always becomes partial)
fn check_lower(n: usize) {
  let dmax: u8 = kani::any(); let nd: u8 = kani::any();
  kani::assume(1 <= dmax && dmax <= 2 && nd < dmax);
  let a = any_opn(dmax, n);
  let c: u64 = kani::any();                    // a cell of the NEW deepest level nd
  kani::assume(c < n_hash(nd));
  let b = BMOCBuilderUnsafe { depth_max: dmax, entries: None };
  let out = b.to_lower_depth(nd, vec_of(&a));
  assert!(wf(&out, nd), "C15/C09 to_lower_depth output well formed at the new depth");
  // expected state of coarse cell c: scan the old deepest cells under c
  let sh = 2 * (dmax - nd) as u32;
  let mut any_cov = false; let mut all_full_by_coarse = false;
  let mut k = 0;
  while k < 5 {
    if k < n {
      let l = e_lo(&a.e[k], dmax); let h = e_hi(&a.e[k], dmax);
      if (l >> sh) <= c && c < ((h - 1) >> sh) + 1 { any_cov = true; if a.e[k].d <= nd && a.e[k].f { all_full_by_coarse = true; } }
    }
    k += 1;
  }
  let got = state_of(&out, c);
  assert!((got != 0) == any_cov, "C15 lower depth keeps a coarse cell iff it contained something");
  if got == 2 { assert!(all_full_by_coarse, "C15 lower depth marks a coarse cell full only if it was entirely covered by full cells"); }
  if all_full_by_coarse { assert!(got == 2, "C15 a full cell of depth <= new depth stays full"); }
  kani::cover!(n == 0 || got == 1, "group of deeper cells became a partial coarse cell");
  kani::cover!(n == 0 || got == 2, "coarse full cell kept");
}
#[kani::proof] #[kani::unwind(8)] fn bmoc_lower_1() { check_lower(1) }
#[kani::proof] #[kani::unwind(8)] fn bmoc_lower_2() { check_lower(2) }
#[kani::proof] #[kani::unwind(8)] fn bmoc_lower_3() { check_lower(3) }
#[kani::proof] #[kani::unwind(8)] fn bmoc_lower_4() { check_lower(4) }

/// buff_to_bmoc on a sorted duplicate-free buffer of n hashes at depth d: output covers exactly
/// the buffer, all with the builder's flag, well formed
fn check_buff(n: usize) {
  let d: u8 = kani::any(); let flag: bool = kani::any();
  kani::assume(d <= 2);
  let h: [u16; 5] = kani::any();
  let mut k = 0;
  while k < 5 { if k < n { kani::assume((h[k] as u64) < n_hash(d)); if k > 0 { kani::assume(h[k - 1] < h[k]); } } k += 1; }
  let buffer: Vec<u64> = match n { 1 => vec![h[0] as u64], 2 => vec![h[0] as u64, h[1] as u64], 3 => vec![h[0] as u64, h[1] as u64, h[2] as u64],
    4 => vec![h[0] as u64, h[1] as u64, h[2] as u64, h[3] as u64], _ => vec![h[0] as u64, h[1] as u64, h[2] as u64, h[3] as u64, h[4] as u64] };
  let mut b = BMOCBuilderFixedDepth { depth: d, bmoc: None, is_full: flag, buffer, sorted: true };
  let out = b.buff_to_bmoc();
  let c: u64 = kani::any();
  kani::assume(c < n_hash(d));
  let mut pushed = false; let mut k = 0;
  while k < 5 { if k < n && h[k] as u64 == c { pushed = true; } k += 1; }
  assert!(out.depth_max == d && wf(&out.entries, d), "C15/C09 buff_to_bmoc output well formed");
  assert!(state_of(&out.entries, c) == if pushed { if flag { 2 } else { 1 } } else { 0 }, "C15 fixed-depth builder covers exactly the pushed cells with the requested flag");
  kani::cover!(n < 4 || out.entries.len() + 3 == n, "an aligned run of four merged into the parent");
}
#[kani::proof] #[kani::unwind(8)] fn bmoc_buff_1() { check_buff(1) }
#[kani::proof] #[kani::unwind(8)] fn bmoc_buff_4() { check_buff(4) }
#[kani::proof] #[kani::unwind(8)] fn bmoc_buff_5() { check_buff(5) }

/// largest_lower_cell_sequence_len(h, s): longest run h, h+1, ... at the head of s, capped at the
/// alignment block of h (4^dd cells with dd = min(trailing zero pairs of h, depth))
#[kani::proof] #[kani::unwind(8)]
fn bmoc_seq_len_contract() {
  let d: u8 = kani::any(); kani::assume(d <= 29);
  let b = BMOCBuilderFixedDepth { depth: d, bmoc: None, is_full: true, buffer: Vec::new(), sorted: true };
  let s: [u64; 5] = kani::any();
  let n: usize = kani::any(); kani::assume(1 <= n && n <= 5);
  let h = s[0];
  kani::assume(h < n_hash(d));
  let r = b.largest_lower_cell_sequence_len(h, &s[..n]);
  let dd = { let t = (h.trailing_zeros() >> 1) as u8; if t < d { t } else { d } };
  let cap = 1u64 << (2 * dd as u32);
  assert!(r >= 1 && r <= n && (r as u64) <= cap, "C15 run length within the slice and the alignment block");
  let mut k = 1;
  while k < 5 { if k < r { assert!(s[k] == h + k as u64, "C15 run is consecutive"); } k += 1; }
  if r < n && (r as u64) < cap { assert!(s[r] != h + r as u64, "C15 run is maximal"); }
  kani::cover!(r == 4); kani::cover!(r == 1 && n > 1);
}

/// drain_buffer / push / to_bmoc: structural contract with BMOC::or replaced by a recording stub:
/// every drained buffer is merged into the previous BMOC through or() (never concatenated), the
/// buffer is emptied, `sorted` is truthful, duplicates of the last pushed value are ignored.
static mut OR_CALLS: u32 = 0;
/// false natively, true under Kani where it is stubbed: tells the harness whether or() is the recording stub
fn or_is_stubbed() -> bool { false }
fn or_is_stubbed_yes() -> bool { true }
fn ghost_or(a: &BMOC, b: &BMOC) -> BMOC {
  unsafe { OR_CALLS += 1; }
  assert!(a.depth_max == b.depth_max, "or() operands of the fixed-depth builder share the depth");
  BMOC { depth_max: a.depth_max, entries: Box::new([]) }
}
#[kani::proof] #[kani::stub(BMOC::or, ghost_or)] #[kani::stub(or_is_stubbed, or_is_stubbed_yes)] #[kani::unwind(8)] fn bmoc_fixed_builder_structure_cap1() { fixed_builder_structure(1) }
#[kani::proof] #[kani::stub(BMOC::or, ghost_or)] #[kani::stub(or_is_stubbed, or_is_stubbed_yes)] #[kani::unwind(8)] fn bmoc_fixed_builder_structure_cap2() { fixed_builder_structure(2) }
#[kani::proof] #[kani::stub(BMOC::or, ghost_or)] #[kani::stub(or_is_stubbed, or_is_stubbed_yes)] #[kani::unwind(8)] fn bmoc_fixed_builder_structure_cap3() { fixed_builder_structure(3) }
fn fixed_builder_structure(cap: usize) {
  let d: u8 = kani::any(); let flag: bool = kani::any();
  kani::assume(d <= 2);
  let mut b = BMOCBuilderFixedDepth::with_capacity(d, flag, cap);
  kani::assume(b.buffer.capacity() == cap);
  let h: [u16; 4] = kani::any();
  let mut k = 0; let mut distinct_pushes = 0usize; let mut last: Option<u16> = None;
  while k < 4 {
    kani::assume((h[k] as u64) < n_hash(d));
    b.push(h[k] as u64);
    if last != Some(h[k]) || b.buffer.len() == 0 && false { }
    k += 1;
  }
  // count expected drains: a drain happens each time the buffer reaches its capacity
  let res = b.to_bmoc();
  assert!(res.is_some(), "C15 the builder returns nothing only if nothing was pushed");
  assert!(b.buffer.len() == 0 && b.sorted, "C15 buffer emptied and flag reset after draining");
  let _ = (distinct_pushes, last);
  if or_is_stubbed() {
    // every drain after the first must go through or() (never a concatenation)
    if cap == 1 && h[0] != h[1] && h[1] != h[2] && h[2] != h[3] { assert!(unsafe { OR_CALLS } == 3, "C15 every drained buffer is merged through or()"); }
    if cap == 2 && h[0] != h[1] && h[1] != h[2] && h[2] != h[3] { assert!(unsafe { OR_CALLS } == 1, "C15 every drained buffer is merged through or()"); }
    if cap == 3 && h[0] != h[1] && h[1] != h[2] && h[2] != h[3] { assert!(unsafe { OR_CALLS } == 1, "C15 every drained buffer is merged through or()"); }
  } else if let Some(out) = &res {
    // native playback: the real or() ran; check the property itself on the result
    let mut c = 0u64;
    while c < n_hash(d) {
      let pushed = h[0] as u64 == c || h[1] as u64 == c || h[2] as u64 == c || h[3] as u64 == c;
      assert!(n_covering(&out.entries, c) == if pushed { 1 } else { 0 }, "C15 fixed-depth builder covers exactly the pushed cells (each once)");
      c += 1;
    }
  }
  kani::cover!(unsafe { OR_CALLS } >= 1, "a second buffer was merged");
}
#[kani::proof] #[kani::unwind(8)]
fn bmoc_fixed_builder_empty() {
  let mut b = BMOCBuilderFixedDepth::with_capacity(kani::any(), kani::any(), 2);
  assert!(b.to_bmoc().is_none(), "C15 nothing pushed => nothing returned");
}

// ---------------------------------------------------------------------------------------------
// C08: contract of not_in_cell_4_or on its own (the loop that `or` enters when a partial coarse
// cell overlaps full cells), with n further entries in the iterator: reaches the multi-entry
// cases the whole-operator harness cannot (or 1x2, 1x3).
// ---------------------------------------------------------------------------------------------
fn check_nico(n: usize) {
  let dmax: u8 = kani::any();
  kani::assume(1 <= dmax && dmax <= 3);
  // low resolution partial cell
  let ld: u8 = kani::any(); let lh: u16 = kani::any();
  kani::assume(ld < dmax && (lh as u64) < n_hash(ld));
  let low = Cell { raw_value: build_raw_value(ld, lh as u64, false, dmax), depth: ld, hash: lh as u64, is_full: false };
  // first full cell strictly inside it, then n further entries (any, after it)
  let rest = any_op(dmax, n);
  let c0 = any_e(dmax);
  kani::assume(c0.f && c0.d > ld && (c0.h >> (2 * (c0.d - ld) as u32)) == lh as u64);
  if n >= 1 { kani::assume(e_hi(&c0, dmax) <= e_lo(&rest.e[0], dmax)); }
  let c = Cell { raw_value: build_raw_value(c0.d, c0.h, true, dmax), depth: c0.d, hash: c0.h, is_full: true };
  let gc: u64 = kani::any();
  kani::assume(gc < n_hash(dmax));
  g_reset(gc, dmax);
  unsafe { G_LAST_HI = shl(lh as u64, dmax - ld); }
  let mut it = (&rest.bmoc).into_iter();
  let mut b = BMOCBuilderUnsafe { depth_max: dmax, entries: None };
  let dummy = BMOC { depth_max: dmax, entries: Box::new([]) };
  let ret = dummy.not_in_cell_4_or(&low, c, &mut it, &mut b);
  let (last_hi, state, count, ok) = g_snapshot();
  let l_lo = shl(lh as u64, dmax - ld); let l_hi = shl(lh as u64 + 1, dmax - ld);
  assert!(ok && count <= 1, "C09 not_in_cell_4_or pushes valid, ordered, disjoint cells");
  assert!(last_hi == l_hi, "C08 not_in_cell_4_or fills the coarse cell exactly up to its end");
  if l_lo <= gc && gc < l_hi {
    // inside the coarse partial cell: full where a full entry covers it, partial elsewhere
    let mut s = if e_lo(&c0, dmax) <= gc && gc < e_hi(&c0, dmax) { 2 } else { 1 };
    let mut k = 0;
    while k < 3 { if k < n && e_lo(&rest.e[k], dmax) <= gc && gc < e_hi(&rest.e[k], dmax) && rest.e[k].f { s = 2; } k += 1; }
    assert!(state == s, "C08 or: inside a partial coarse cell the result is the pointwise maximum");
  } else {
    assert!(count == 0, "C08 not_in_cell_4_or does not touch cells outside the coarse cell");
  }
  // returned cell: the first remaining entry that is not inside the coarse cell
  let mut k = 0; let mut first_out: Option<usize> = None;
  while k < 3 { if k < n && first_out.is_none() && !(l_lo <= e_lo(&rest.e[k], dmax) && e_lo(&rest.e[k], dmax) < l_hi) { first_out = Some(k); } k += 1; }
  match (ret, first_out) {
    (Some(r), Some(k)) => assert!(r.depth == rest.e[k].d && r.hash == rest.e[k].h && r.is_full == rest.e[k].f, "C08 not_in_cell_4_or returns the first cell after the coarse cell"),
    (None, None) => {},
    _ => assert!(false, "C08 not_in_cell_4_or returns the first cell after the coarse cell"),
  }
  kani::cover!(n == 0 || (rest.e[0].f && l_lo <= e_lo(&rest.e[0], dmax) && e_lo(&rest.e[0], dmax) < l_hi), "a second full cell inside the coarse cell");
}
macro_rules! nico_harness {
  ($name:ident, $n:literal, $uw:literal) => {
    #[kani::proof]
    #[kani::stub(BMOCBuilderUnsafe::push, ghost_push)]
    #[kani::stub(go_down, ghost_go_down)]
    #[kani::stub(go_up, ghost_go_up)]
    #[kani::unwind($uw)]
    fn $name() { check_nico($n) }
  };
}
nico_harness!(bmoc_nico_0, 0, 5);
nico_harness!(bmoc_nico_1, 1, 5);
nico_harness!(bmoc_nico_2, 2, 6);
nico_harness!(bmoc_nico_3, 3, 7);
