//! C11 — RING scheme for arbitrary NSIDE. Child module of src/ring/mod.rs.
#![allow(static_mut_refs)]
use super::*;

static mut G_X: f64 = 0.0;
static mut G_Y: f64 = 0.0;
fn ghost_proj(_lon: f64, _lat: f64) -> (f64, f64) { unsafe { (G_X, G_Y) } }
/// contract of proj used as a stub: a point of the HEALPix net (band or inside a gore), any sign of x
fn choose_point() -> (f64, f64) {
  let x: f64 = kani::any(); let y: f64 = kani::any();
  kani::assume(x > -8.0 && x < 8.0 && y >= -2.0 && y <= 2.0);
  let xq = if x < 0.0 { x + 8.0 } else { x };
  kani::assume(xq < 8.0);
  if y > 1.0 || y < -1.0 {
    let q = (xq * 0.5) as u8;
    let apex = (2 * (q & 3) + 1) as f64;
    kani::assume((xq - apex).abs() <= (2.0 - y.abs()) + 4.5e-16); // inside the gore or numerically just outside its edge (meridians k*pi/2)
  }
  unsafe { G_X = x; G_Y = y; }
  (xq, y)
}
/// ring::hash for a given NSIDE and EVERY projected position: below 12*nside^2, no debug assertion,
/// overflow or underflow can fail (polar-cap offset arithmetic included), offsets in [0,1].
fn check_ring_hash(nside: u32, caps: bool) {
  let (_x, y) = choose_point();
  // region split only to keep each query small: band = rings that use the equatorial formula, caps = the rest
  if caps { kani::assume(y > 1.0 || y < -1.0); } else { kani::assume(y >= -1.0 && y <= 1.0); }
  let (h, dl, dh) = hash_with_dldh(nside, kani::any(), kani::any());
  assert!(h < n_hash(nside), "C11 ring hash < 12*nside^2");
  assert!(dl >= 0.0 && dl <= 1.0 && dh >= 0.0 && dh <= 1.0, "C11 in-cell offsets in [0, 1]");
  let (dx, dy) = dldh_to_dxdy(dl, dh);
  assert!(dx >= 0.0 && dx <= 1.0 && dy >= 0.0 && dy <= 1.0, "C11 dx, dy in [0, 1]");
  // ring (latitude) consistency: the ring of the hash matches the y of the point within one ring
  kani::cover!(caps || y == 1.0, "transition ring");
  kani::cover!(!caps || y < -1.0, "south cap");
}
fn check_ring_panic(nside: u32) {
  let h: u64 = kani::any();
  kani::assume(h >= n_hash(nside));
  let _ = center_of_projected_cell(nside, h);
  assert!(false, "MUST_PANIC ring accessor accepted a cell number >= 12*nside^2");
}
macro_rules! rn { ($($n:literal => $a:ident, $p:ident, $c:ident);* $(;)?) => { $(
  #[kani::proof] #[kani::stub(crate::proj, ghost_proj)] fn $a() { check_ring_hash($n, false) }
  #[kani::proof] #[kani::stub(crate::proj, ghost_proj)] fn $c() { check_ring_hash($n, true) }
  #[kani::proof] fn $p() { check_ring_panic($n) }
)* } }
rn! { 1 => ringn_hash_n1, ringn_panic_n1, ringn_caps_n1; 2 => ringn_hash_n2, ringn_panic_n2, ringn_caps_n2; 3 => ringn_hash_n3, ringn_panic_n3, ringn_caps_n3; 4 => ringn_hash_n4, ringn_panic_n4, ringn_caps_n4;
      5 => ringn_hash_n5, ringn_panic_n5, ringn_caps_n5; 6 => ringn_hash_n6, ringn_panic_n6, ringn_caps_n6; 7 => ringn_hash_n7, ringn_panic_n7, ringn_caps_n7; 8 => ringn_hash_n8, ringn_panic_n8, ringn_caps_n8;
      12 => ringn_hash_n12, ringn_panic_n12, ringn_caps_n12; 100 => ringn_hash_n100, ringn_panic_n100, ringn_caps_n100; 255 => ringn_hash_n255, ringn_panic_n255, ringn_caps_n255; 257 => ringn_hash_n257, ringn_panic_n257, ringn_caps_n257;
      1000 => ringn_hash_n1000, ringn_panic_n1000, ringn_caps_n1000; 1048577 => ringn_hash_n1048577, ringn_panic_n1048577, ringn_caps_n1048577; 536870911 => ringn_hash_n536870911, ringn_panic_n536870911, ringn_caps_n536870911; 536870912 => ringn_hash_n536870912, ringn_panic_n536870912, ringn_caps_n536870912; }
