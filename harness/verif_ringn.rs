//! C11 — RING scheme for arbitrary NSIDE. Child module of src/ring/mod.rs.
#![allow(static_mut_refs)]
use super::*;

static mut G_X: f64 = 0.0;
static mut G_Y: f64 = 0.0;
fn ghost_proj(_lon: f64, _lat: f64) -> (f64, f64) { unsafe { (G_X, G_Y) } }
/// contract of proj used as a stub: a point of the HEALPix net (band or inside a gore), any sign of x
fn choose_point() -> (f64, f64) {
  let x: f64 = kani::any(); let y: f64 = kani::any();
  kani::assume(x > -8.0 && x < 8.0 && y >= -2.0 && y <= 2.0);
  let xq = if x < 0.0 { x + 8.0 } else { x };
  kani::assume(xq < 8.0);
  if y > 1.0 || y < -1.0 {
    let q = (xq * 0.5) as u8;
    let apex = (2 * (q & 3) + 1) as f64;
    kani::assume((xq - apex).abs() <= (2.0 - y.abs()) + 4.5e-16); // inside the gore or numerically just outside its edge (meridians k*pi/2)
  }
  unsafe { G_X = x; G_Y = y; }
  (xq, y)
}
/// ring::hash for a given NSIDE and EVERY projected position: below 12*nside^2, no debug assertion,
/// overflow or underflow can fail (polar-cap offset arithmetic included), offsets in [0,1].
fn check_ring_hash(nside: u32, caps: bool) {
  let (_x, y) = choose_point();
  // region split only to keep each query small: band = rings that use the equatorial formula, caps = the rest
  if caps { kani::assume(y > 1.0 || y < -1.0); } else { kani::assume(y >= -1.0 && y <= 1.0); }
  let (h, dl, dh) = hash_with_dldh(nside, kani::any(), kani::any());
  assert!(h < n_hash(nside), "C11 ring hash < 12*nside^2");
  assert!(dl >= 0.0 && dl <= 1.0 && dh >= 0.0 && dh <= 1.0, "C11 in-cell offsets in [0, 1]");
  let (dx, dy) = dldh_to_dxdy(dl, dh);
  assert!(dx >= 0.0 && dx <= 1.0 && dy >= 0.0 && dy <= 1.0, "C11 dx, dy in [0, 1]");
  // ring (latitude) consistency: the ring of the hash matches the y of the point within one ring
  kani::cover!(caps || y == 1.0, "transition ring");
  kani::cover!(!caps || y < -1.0, "south cap");
}
/// Centre of RING cell h in the projection plane by the DEFINITION of the scheme (rings from the
/// north: 4(r+1) cells for r < nside-1, 4 nside for nside-1 <= r <= 3 nside-1, 4(4 nside-1-r) below;
/// y = 2 - (r+1)/nside; cells of a ring equally spaced from lon = 0), integers + exact small ratios.
fn spec_ring_center(nside: u32, h: u64) -> (f64, f64) {
  let n = nside as u64; let nf = nside as f64;
  let mut r = 0u64; let mut start = 0u64;
  // find the ring by walking the ring sizes (nside is small in these harnesses)
  while r < 4 * n - 1 {
    let size = if r + 1 < n { 4 * (r + 1) } else if r <= 3 * n - 1 { 4 * n } else { 4 * (4 * n - 1 - r) };
    if h < start + size { break; }
    start += size; r += 1;
  }
  let j = h - start;
  let cy = 2.0 - ((r + 1) as f64) / nf;
  let cx = if r + 1 < n || r > 3 * n - 1 {
    let t = if r + 1 < n { r + 1 } else { 4 * n - 1 - r };
    let q = j / t; let k = j % t;
    (2 * q + 1) as f64 + ((2 * k + 1) as f64 - t as f64) / nf
  } else {
    let s = if (r - (n - 1)) % 2 == 0 { 1 } else { 0 };
    ((2 * j + s) as f64) / nf
  };
  (cx, cy)
}
/// containment: the centre (by the definition above) of the returned cell is within one half-diagonal
/// (1/nside, L1 norm, x modulo 8) of the position -- away from the glued gore edges, where the cell
/// across the seam is as good.
fn check_ring_contains(nside: u32) {
  let (xq, y) = choose_point();
  let inside = !(y > 1.0 || y < -1.0) || { let q = (xq * 0.5) as u8; let apex = (2 * (q & 3) + 1) as f64; (xq - apex).abs() <= 2.0 - y.abs() - 1e-9 };
  kani::assume(inside);
  let (h, _dl, _dh) = hash_with_dldh(nside, kani::any(), kani::any());
  kani::assume(h < n_hash(nside));
  let (cx, cy) = spec_ring_center(nside, h);
  let mut ex = xq - cx;
  if ex > 4.0 { ex -= 8.0; }
  if ex < -4.0 { ex += 8.0; }
  let n = nside as f64;
  assert!((ex.abs() + (y - cy).abs()) * n <= 1.0 + 1e-9, "C11 the ring cell returned for a position contains it (L1 distance to its centre <= 1/nside)");
}
/// the crate's own centre agrees with the definition (exactly) for every cell of a small nside
fn check_ring_center_def(nside: u32) {
  let h: u64 = kani::any();
  kani::assume(h < n_hash(nside));
  let (cx, cy) = center_of_projected_cell(nside, h);
  let (sx, sy) = spec_ring_center(nside, h);
  assert!((cx - sx).abs() <= 1e-15 * 8.0 && (cy - sy).abs() <= 1e-15 * 2.0, "C11 ring centre == definition of the RING scheme (ring sizes 4i / 4 nside, equally spaced from lon = 0, y = 2 - (r+1)/nside)");
}
fn check_ring_panic(nside: u32) {
  let h: u64 = kani::any();
  kani::assume(h >= n_hash(nside));
  let _ = center_of_projected_cell(nside, h);
  assert!(false, "MUST_PANIC ring accessor accepted a cell number >= 12*nside^2");
}
macro_rules! rn { ($($n:literal => $a:ident, $p:ident, $c:ident);* $(;)?) => { $(
  #[kani::proof] #[kani::stub(crate::proj, ghost_proj)] fn $a() { check_ring_hash($n, false) }
  #[kani::proof] #[kani::stub(crate::proj, ghost_proj)] fn $c() { check_ring_hash($n, true) }
  #[kani::proof] fn $p() { check_ring_panic($n) }
)* } }
rn! { 1 => ringn_hash_n1, ringn_panic_n1, ringn_caps_n1; 2 => ringn_hash_n2, ringn_panic_n2, ringn_caps_n2; 3 => ringn_hash_n3, ringn_panic_n3, ringn_caps_n3; 4 => ringn_hash_n4, ringn_panic_n4, ringn_caps_n4;
      5 => ringn_hash_n5, ringn_panic_n5, ringn_caps_n5; 6 => ringn_hash_n6, ringn_panic_n6, ringn_caps_n6; 7 => ringn_hash_n7, ringn_panic_n7, ringn_caps_n7; 8 => ringn_hash_n8, ringn_panic_n8, ringn_caps_n8;
      12 => ringn_hash_n12, ringn_panic_n12, ringn_caps_n12; 100 => ringn_hash_n100, ringn_panic_n100, ringn_caps_n100; 255 => ringn_hash_n255, ringn_panic_n255, ringn_caps_n255; 257 => ringn_hash_n257, ringn_panic_n257, ringn_caps_n257;
      1000 => ringn_hash_n1000, ringn_panic_n1000, ringn_caps_n1000; 1048577 => ringn_hash_n1048577, ringn_panic_n1048577, ringn_caps_n1048577; 536870911 => ringn_hash_n536870911, ringn_panic_n536870911, ringn_caps_n536870911; 536870912 => ringn_hash_n536870912, ringn_panic_n536870912, ringn_caps_n536870912; }
#[kani::proof] #[kani::stub(crate::proj, ghost_proj)] #[kani::unwind(26)] fn ringn_contains_n1() { check_ring_contains(1) }
#[kani::proof] #[kani::stub(crate::proj, ghost_proj)] #[kani::unwind(26)] fn ringn_contains_n2() { check_ring_contains(2) }
#[kani::proof] #[kani::stub(crate::proj, ghost_proj)] #[kani::unwind(26)] fn ringn_contains_n3() { check_ring_contains(3) }
#[kani::proof] #[kani::stub(crate::proj, ghost_proj)] #[kani::unwind(26)] fn ringn_contains_n5() { check_ring_contains(5) }
#[kani::proof] #[kani::stub(crate::proj, ghost_proj)] #[kani::unwind(26)] fn ringn_contains_n6() { check_ring_contains(6) }
#[kani::proof] #[kani::unwind(26)] fn ringn_center_def_n1() { check_ring_center_def(1) }
#[kani::proof] #[kani::unwind(26)] fn ringn_center_def_n2() { check_ring_center_def(2) }
#[kani::proof] #[kani::unwind(26)] fn ringn_center_def_n3() { check_ring_center_def(3) }
#[kani::proof] #[kani::unwind(26)] fn ringn_center_def_n5() { check_ring_center_def(5) }
