//! C12 / C13 — decidable structural parts. Child module of src/nested/mod.rs.
use super::*;
use crate::verif_spec as sp;

/// is_in_list(depth, hash, depth_max, sorted list): true iff some listed deepest cell lies in the
/// cell (depth, hash) -- the test that keeps every polygon-vertex cell in the coverage.
fn check_is_in_list(n: usize) {
  let dmax: u8 = kani::any(); let d: u8 = kani::any();
  kani::assume(dmax <= 29 && d <= dmax);
  let h: u64 = kani::any(); kani::assume(h < sp::n_hash(d));
  let v: [u64; 4] = kani::any();
  let mut k = 0;
  while k < 4 { if k < n { kani::assume(v[k] < sp::n_hash(dmax)); if k > 0 { kani::assume(v[k - 1] < v[k]); } } k += 1; }
  let r = is_in_list(d, h, dmax, &v[..n]);
  let sh = 2 * (dmax - d) as u32;
  let mut expect = false; let mut k = 0;
  while k < 4 { if k < n && (v[k] >> sh) == h { expect = true; } k += 1; }
  assert!(r == expect, "C12 is_in_list <=> a listed vertex cell is a descendant (or the cell itself)");
  kani::cover!(n == 0 || (expect && d < dmax), "ancestor of a listed cell");
}
#[kani::proof] #[kani::unwind(8)] fn poly_is_in_list_0() { check_is_in_list(0) }
#[kani::proof] #[kani::unwind(8)] fn poly_is_in_list_1() { check_is_in_list(1) }
#[kani::proof] #[kani::unwind(8)] fn poly_is_in_list_2() { check_is_in_list(2) }
#[kani::proof] #[kani::unwind(8)] fn poly_is_in_list_3() { check_is_in_list(3) }
#[kani::proof] #[kani::unwind(8)] fn poly_is_in_list_4() { check_is_in_list(4) }

/// C13 guard: a semi-major axis >= pi/2 is rejected by a panic, whatever the other arguments,
/// in the plain and in the custom (delta_depth) entry points.
// Everything reachable after the guard is replaced by the marker: reaching it means the guard let
// the value through (keeps the query free of the trig / Vec / recursion code behind the guard).
fn reached_ellipse(_lon: f64, _lat: f64, _a: f64, _b: f64, _pa: f64) -> crate::sph_geom::elliptical_cone::EllipticalCone {
  assert!(false, "MUST_PANIC elliptical cone accepted a semi-major axis >= pi/2");
  loop {}
}
fn reached_allsky(_l: &Layer) -> BMOCBuilderUnsafe {
  assert!(false, "MUST_PANIC elliptical cone accepted a semi-major axis >= pi/2");
  loop {}
}
#[kani::proof] #[kani::unwind(4)]
#[kani::stub(crate::sph_geom::elliptical_cone::EllipticalCone::new, reached_ellipse)]
#[kani::stub(Layer::allsky_bmoc_builder, reached_allsky)]
fn ellipse_guard_must_panic() {
  let d: u8 = kani::any(); kani::assume(d <= 29);
  let l = Layer::new(d);
  let a: f64 = kani::any();
  kani::assume(a >= HALF_PI);
  kani::cover!(a > 10.0);
  let _ = l.elliptical_cone_coverage_internal(kani::any(), kani::any(), a, kani::any(), kani::any());
  assert!(false, "MUST_PANIC elliptical cone accepted a semi-major axis >= pi/2");
}

// ---- C13 small-ellipse branch, structural contract -----------------------------------------------
// With the geometry predicates replaced by arbitrary answers (contains / overlap_cone: any bool; centre
// of a cell: a tag) and the builder by its contract, the small-ellipse branch (best_starting_depth(a)
// >= requested depth) must push, in increasing order, valid cells of the requested depth, each of
// which is the ancestor of the centre cell or of one of its neighbours at the starting depth.
use crate::nested::bmoc::verif_bmoc as vb;
static mut E_ROOT: u64 = 0;
fn ghost_goc(depth: u8) -> &'static Layer { Box::leak(Box::new(Layer::new(depth))) }
fn ghost_layer_hash(_l: &Layer, _lon: f64, _lat: f64) -> u64 { unsafe { E_ROOT } }
fn ghost_center(_l: &Layer, _hash: u64) -> (f64, f64) { (0.0, 0.0) }
fn ghost_contains(_e: &crate::sph_geom::elliptical_cone::EllipticalCone, _lon: f64, _lat: f64) -> bool { kani::any() }
fn ghost_overlap(_e: &crate::sph_geom::elliptical_cone::EllipticalCone, _lon: f64, _lat: f64, _r: f64) -> bool { kani::any() }
fn ghost_c2v(_depth: u8, _lon: f64, _lat: f64, _r: f64) -> f64 { 0.1 }
static mut E_DS: u8 = 0;
fn ghost_bsd(_r: f64) -> u8 { unsafe { E_DS } }
fn ghost_has_bsd(_r: f64) -> bool { true }
fn check_small_ellipse(d: u8, ds: u8) {
  let l = Layer::new(d);
  let root: u64 = kani::any();
  kani::assume(root < sp::n_hash(ds));
  unsafe { E_ROOT = root; E_DS = ds; }
  let c: u64 = kani::any();
  kani::assume(c < sp::n_hash(d));
  vb::g_reset(c, d);
  // concrete ellipse: every geometric answer is an arbitrary stub, the ellipse only has to exist
  let _ = l.elliptical_cone_coverage_internal(0.3, 0.2, 0.01, 0.005, 0.1);
  let (_last, state, count, ok) = vb::g_snapshot();
  assert!(ok && count <= 1, "C13/C09 small-ellipse branch pushes valid cells of the requested depth, in increasing order, without duplicates");
  // a pushed cell is the ancestor (at the requested depth) of the centre cell or of one of its neighbours
  if state != 0 {
    let sh = 2 * (ds - d) as u32;
    let root_layer = Layer::new(ds);
    let nb = root_layer.neighbours(root, true);
    let mut is_anc = false; let mut k = 0u8;
    while k < 9 { if let Some(&x) = nb.get(crate::compass_point::MainWind::from_index(k)) { if (x >> sh) == c { is_anc = true; } } k += 1; }
    assert!(is_anc, "C13 every cell reported by the small-ellipse branch contains the centre cell or one of its neighbours at the starting depth");
    assert!(state == 1, "C13 small-ellipse branch reports partial cells only");
  }
  kani::cover!(state != 0, "tracked cell reported");
}
macro_rules! sme { ($name:ident, $d:literal, $ds:literal) => {
  #[kani::proof]
  #[kani::stub(crate::nested::get_or_create, ghost_goc)]
  #[kani::stub(Layer::hash, ghost_layer_hash)]
  #[kani::stub(Layer::center, ghost_center)]
  #[kani::stub(crate::sph_geom::elliptical_cone::EllipticalCone::contains, ghost_contains)]
  #[kani::stub(crate::sph_geom::elliptical_cone::EllipticalCone::overlap_cone, ghost_overlap)]
  #[kani::stub(crate::largest_center_to_vertex_distance_with_radius, ghost_c2v)]
  #[kani::stub(crate::best_starting_depth, ghost_bsd)]
  #[kani::stub(crate::has_best_starting_depth, ghost_has_bsd)]
  #[kani::stub(<[u64]>::sort_unstable, ghost_sort_unstable)]
  #[kani::stub(BMOCBuilderUnsafe::new, vb::ghost_new)]
  #[kani::stub(BMOCBuilderUnsafe::push, vb::ghost_push)]
  #[kani::unwind(12)]
  fn $name() { check_small_ellipse($d, $ds) }
} }
sme!(ellipse_small_d1_ds1, 1, 1);
sme!(ellipse_small_d1_ds2, 1, 2);
sme!(ellipse_small_d0_ds2, 0, 2);

// ---- C12 recursion contract (geometry predicates as arbitrary answers) --------------------------------
// polygon_coverage_recur with n_vertices_in_poly / has_intersection replaced by an arbitrary table over
// the 21 cells of a 2-level tree and the builder by its contract: for EVERY assignment of answers and
// every sorted list of up to 2 vertex cells, a deepest cell is
//   partial  if a listed vertex cell lies in it (whatever the predicates say: vertex cells are kept),
//   full     iff some ancestor-or-self on the path had all 4 vertices in the polygon (and no listed
//            vertex cell was met before on the path),
//   partial  if every level down to it had (some vertex in || an intersection), absent otherwise.
static mut P_ROOT: u64 = 0;
static mut P_D0: u8 = 0;
static mut P_NV: [u8; 21] = [0; 21];
static mut P_INTER: [bool; 21] = [false; 21];
static mut P_CUR: usize = 0;
fn p_index(depth: u8, hash: u64) -> usize {
  unsafe { let lvl = depth - P_D0; let rel = hash - (P_ROOT << (2 * lvl as u32)); match lvl { 0 => 0, 1 => 1 + (rel & 3) as usize, _ => 5 + (rel & 15) as usize } }
}
fn ghost_n_vertices(depth: u8, hash: u64, _poly: &Polygon) -> (u8, [Coo3D; 4]) {
  let k = p_index(depth, hash);
  unsafe { P_CUR = k; }
  let z = Coo3D::from_sph_coo(0.0, 0.0);
  (unsafe { P_NV[k] }, [z, Coo3D::from_sph_coo(0.0, 0.0), Coo3D::from_sph_coo(0.0, 0.0), Coo3D::from_sph_coo(0.0, 0.0)])
}
fn ghost_has_intersection(_poly: &Polygon, _vertices: [Coo3D; 4]) -> bool { unsafe { P_INTER[P_CUR] } }
fn check_poly_recur(d0: u8, delta: u8, nlist: usize) {
  // d0 concrete: the recursion ends on `depth == self.depth`, which must be decidable during unwinding
  let root: u64 = kani::any(); kani::assume(root < sp::n_hash(d0));
  let l = Layer::new(d0 + delta);
  unsafe {
    P_ROOT = root; P_D0 = d0;
    let mut k = 0; while k < 21 { P_NV[k] = kani::any(); kani::assume(P_NV[k] <= 4); P_INTER[k] = kani::any(); k += 1; }
  }
  // sorted list of vertex cells (deepest level), anywhere on the sphere
  let v: [u64; 2] = kani::any();
  kani::assume(v[0] < sp::n_hash(d0 + delta) && v[1] < sp::n_hash(d0 + delta) && v[0] < v[1]);
  let rel: u64 = kani::any(); kani::assume(rel < (1u64 << (2 * delta as u32)));
  let c = (root << (2 * delta as u32)) | rel;
  vb::g_reset(c, d0 + delta);
  let mut b = BMOCBuilderUnsafe::new(d0 + delta, 0);
  let poly = Polygon::new(vec![LonLat { lon: 0.1, lat: 0.1 }, LonLat { lon: 0.2, lat: 0.1 }, LonLat { lon: 0.15, lat: 0.2 }].into_boxed_slice());
  l.polygon_coverage_recur(&mut b, d0, root, &poly, &v[..nlist]);
  let (_, state, count, ok) = vb::g_snapshot();
  // expected state of c, level by level
  let mut expect = 0u8; let mut lvl = 0u8; let mut done = false;
  while lvl <= 2 {
    if !done && lvl <= delta {
      let cell = c >> (2 * (delta - lvl) as u32);
      let sh = 2 * (delta - lvl) as u32;
      let listed = (nlist >= 1 && (v[0] >> sh) == cell) || (nlist >= 2 && (v[1] >> sh) == cell);
      let k = p_index(d0 + lvl, cell);
      let (nv, inter) = unsafe { (P_NV[k], P_INTER[k]) };
      if listed { if lvl == delta { expect = 1; done = true; } }
      else if nv == 4 { expect = 2; done = true; }
      else if nv > 0 || inter { if lvl == delta { expect = 1; done = true; } }
      else { expect = 0; done = true; }
    }
    lvl += 1;
  }
  assert!(ok && count <= 1, "C12/C09 polygon recursion pushes valid cells in strictly increasing, disjoint order");
  assert!(state == expect, "C12 polygon descent: vertex cells kept (partial), full only when the 4 vertices are in the polygon, partial/descend when a vertex is in or an edge intersects, dropped otherwise");
  kani::cover!(nlist == 0 || expect == 1, "vertex cell kept");
  kani::cover!(expect == 2, "full cell");
}
macro_rules! polyrec { ($name:ident, $d0:literal, $dl:literal, $nl:literal) => {
  #[kani::proof]
  #[kani::stub(n_vertices_in_poly, ghost_n_vertices)]
  #[kani::stub(has_intersection, ghost_has_intersection)]
  #[kani::stub(BMOCBuilderUnsafe::new, vb::ghost_new)]
  #[kani::stub(BMOCBuilderUnsafe::push, vb::ghost_push)]
  #[kani::unwind(22)]
  fn $name() { check_poly_recur($d0, $dl, $nl) }
} }
polyrec!(poly_recur_delta0_n1, 0, 0, 1);
polyrec!(poly_recur_delta1_n1, 2, 1, 1);
polyrec!(poly_recur_delta1_n2, 0, 1, 2);
polyrec!(poly_recur_delta2_n1, 2, 2, 1);
polyrec!(poly_recur_delta2_n0, 1, 2, 0);

// ---- C13 recursion contract (geometry predicates as arbitrary answers) --------------------------------
// elliptical_cone_coverage_recur with EllipticalCone::{contains_cone, contains, overlap_cone} replaced by
// arbitrary tables over the 21 cells of a 2-level tree (cell centres and vertices are tags) and the
// builder by its contract: for EVERY assignment of answers a deepest cell is
//   full     iff some level on its path answered contains_cone, or it was reached and its 4 vertices
//            are all contained,
//   partial  iff it was reached (every level: contains(centre) || overlap_cone) and not full,
//   absent   otherwise; pushes ordered, the threshold index is the recursion level.
type ECone = crate::sph_geom::elliptical_cone::EllipticalCone;
static mut Q_ROOT: u64 = 0;
static mut Q_D0: u8 = 0;
static mut Q_DELTA: u8 = 0;
static mut Q_CC: [bool; 21] = [false; 21];
static mut Q_CT: [bool; 21] = [false; 21];
static mut Q_OV: [bool; 21] = [false; 21];
static mut Q_V: [[bool; 4]; 21] = [[false; 4]; 21];
static mut Q_DIST_OK: bool = true;
fn q_index(lvl: u8, hash: u64) -> usize {
  unsafe { let rel = hash - (Q_ROOT << (2 * lvl as u32)); match lvl { 0 => 0, 1 => 1 + (rel & 3) as usize, _ => 5 + (rel & 15) as usize } }
}
fn q_of(lon: f64, lat: f64) -> usize { unsafe { q_index(lat as u8 - Q_D0, lon as u64) } }
fn ghost_center_tag(l: &Layer, hash: u64) -> (f64, f64) { (hash as f64, l.depth as f64) }
fn ghost_vertices_tag(_l: &Layer, hash: u64) -> [(f64, f64); 4] { let h = hash as f64; [(h, -1.0), (h, -2.0), (h, -3.0), (h, -4.0)] }
fn ghost_e_contains_cone(_e: &ECone, lon: f64, lat: f64, r: f64) -> bool {
  // the threshold handed over must be the one of the recursion level (distances[level] = level + 1 here)
  unsafe { if r != (lat as u8 - Q_D0) as f64 + 1.0 { Q_DIST_OK = false; } Q_CC[q_of(lon, lat)] }
}
fn ghost_e_overlap(_e: &ECone, lon: f64, lat: f64, r: f64) -> bool {
  unsafe { if r != (lat as u8 - Q_D0) as f64 + 1.0 { Q_DIST_OK = false; } Q_OV[q_of(lon, lat)] }
}
fn ghost_e_contains(_e: &ECone, lon: f64, lat: f64) -> bool {
  unsafe { if lat < 0.0 { Q_V[q_index(Q_DELTA, lon as u64)][(-lat) as usize - 1] } else { Q_CT[q_of(lon, lat)] } }
}
fn check_ellipse_recur(d0: u8, delta: u8) {
  let root: u64 = kani::any(); kani::assume(root < sp::n_hash(d0));
  let l = Layer::new(d0 + delta);
  unsafe {
    Q_ROOT = root; Q_D0 = d0; Q_DELTA = delta; Q_DIST_OK = true;
    let mut k = 0; while k < 21 { Q_CC[k] = kani::any(); Q_CT[k] = kani::any(); Q_OV[k] = kani::any(); Q_V[k] = kani::any(); k += 1; }
  }
  let rel: u64 = kani::any(); kani::assume(rel < (1u64 << (2 * delta as u32)));
  let c = (root << (2 * delta as u32)) | rel;
  vb::g_reset(c, d0 + delta);
  let mut b = BMOCBuilderUnsafe::new(d0 + delta, 0);
  let e = ECone::new(0.3, 0.2, 0.01, 0.005, 0.1);
  let dist = [1.0f64, 2.0, 3.0];
  l.elliptical_cone_coverage_recur(d0, root, &e, &dist[..(delta as usize + 1)], 0, &mut b);
  let (_, state, count, ok) = vb::g_snapshot();
  let mut expect = 0u8; let mut lvl = 0u8; let mut done = false;
  while lvl <= 2 {
    if !done && lvl <= delta {
      let k = q_index(lvl, c >> (2 * (delta - lvl) as u32));
      let (cc, ct, ov, v) = unsafe { (Q_CC[k], Q_CT[k], Q_OV[k], Q_V[k]) };
      if cc { expect = 2; done = true; }
      else if ct || ov { if lvl == delta { expect = if v[0] && v[1] && v[2] && v[3] { 2 } else { 1 }; done = true; } }
      else { expect = 0; done = true; }
    }
    lvl += 1;
  }
  assert!(ok && count <= 1, "C13/C09 elliptical recursion pushes valid cells in strictly increasing, disjoint order");
  assert!(unsafe { Q_DIST_OK }, "C13 the cell-size threshold used at a level is the one tabulated for that level");
  assert!(state == expect, "C13 elliptical descent: full iff contains_cone on the path or (reached and 4 vertices contained); partial iff reached and not full; dropped otherwise");
  kani::cover!(expect == 1, "partial cell at the requested depth");
  kani::cover!(expect == 2, "full cell");
}
macro_rules! ellrec { ($name:ident, $d0:literal, $dl:literal) => {
  #[kani::proof]
  #[kani::stub(crate::nested::get_or_create, ghost_goc)]
  #[kani::stub(Layer::center, ghost_center_tag)]
  #[kani::stub(Layer::vertices, ghost_vertices_tag)]
  #[kani::stub(crate::sph_geom::elliptical_cone::EllipticalCone::contains_cone, ghost_e_contains_cone)]
  #[kani::stub(crate::sph_geom::elliptical_cone::EllipticalCone::contains, ghost_e_contains)]
  #[kani::stub(crate::sph_geom::elliptical_cone::EllipticalCone::overlap_cone, ghost_e_overlap)]
  #[kani::stub(BMOCBuilderUnsafe::new, vb::ghost_new)]
  #[kani::stub(BMOCBuilderUnsafe::push, vb::ghost_push)]
  #[kani::unwind(22)]
  fn $name() { check_ellipse_recur($d0, $dl) }
} }
ellrec!(ellipse_recur_delta0, 3, 0);
ellrec!(ellipse_recur_delta1, 0, 1);
ellrec!(ellipse_recur_delta2, 2, 2);

// contract of `<[u64]>::sort_unstable` used as a stub in the small-ellipse units: the slice afterwards
// is ascending and holds the same set of values (each old value present, each new value an old one);
// multiplicities are irrelevant to the caller, which dedups next.
static mut SORT_STUBBED: bool = false;
fn ghost_sort_unstable<T: Ord>(v: &mut [T]) {
  unsafe { SORT_STUBBED = true; }
  let n = v.len();
  assert!(n <= 9, "sort contract stub sized for at most 9 elements (a cell and its 8 neighbours)");
  // selection sort by swaps is a permutation by construction; written with concrete 9x9 bounds
  let mut i = 0;
  while i < 9 { let mut j = i + 1; while j < 9 { if j < n && v[j] < v[i] { v.swap(i, j); } j += 1; } i += 1; }
}
#[kani::proof] #[kani::unwind(11)]
#[kani::stub(<[u64]>::sort_unstable, ghost_sort_unstable)]
fn sort_stub_probe() {
  let mut a: [u64; 3] = kani::any();
  a[..].sort_unstable();
  assert!(a[0] <= a[1] && a[1] <= a[2], "sorted");
  assert!(unsafe { SORT_STUBBED }, "the sort contract stub is in effect");
}

// probe (not registered): does the in-place `into_iter().filter().map().collect()` of the small-ellipse branch
// verify in isolation?
#[kani::proof] #[kani::unwind(12)]
#[kani::stub(<[u64]>::sort_unstable, ghost_sort_unstable)]
fn collect_probe() {
  let root: u64 = kani::any(); kani::assume(root < 48);
  let l = Layer::new(1);
  let keep: [bool; 4] = kani::any();
  let mut neigs: Vec<u64> = l.neighbours(root, true).values_vec().into_iter()
    .filter(|h| keep[(*h & 3) as usize])
    .map(|h| h >> 2)
    .collect();
  neigs.sort_unstable();
  neigs.dedup();
  assert!(neigs.len() <= 9, "at most 9 cells");
  for n in neigs { assert!(n < 12, "base cells"); }
}
