//! C12 / C13 — decidable structural parts. Child module of src/nested/mod.rs.
use super::*;
use crate::verif_spec as sp;

/// is_in_list(depth, hash, depth_max, sorted list): true iff some listed deepest cell lies in the
/// cell (depth, hash) -- the test that keeps every polygon-vertex cell in the coverage.
fn check_is_in_list(n: usize) {
  let dmax: u8 = kani::any(); let d: u8 = kani::any();
  kani::assume(dmax <= 29 && d <= dmax);
  let h: u64 = kani::any(); kani::assume(h < sp::n_hash(d));
  let v: [u64; 4] = kani::any();
  let mut k = 0;
  while k < 4 { if k < n { kani::assume(v[k] < sp::n_hash(dmax)); if k > 0 { kani::assume(v[k - 1] < v[k]); } } k += 1; }
  let r = is_in_list(d, h, dmax, &v[..n]);
  let sh = 2 * (dmax - d) as u32;
  let mut expect = false; let mut k = 0;
  while k < 4 { if k < n && (v[k] >> sh) == h { expect = true; } k += 1; }
  assert!(r == expect, "C12 is_in_list <=> a listed vertex cell is a descendant (or the cell itself)");
  kani::cover!(n == 0 || (expect && d < dmax), "ancestor of a listed cell");
}
#[kani::proof] #[kani::unwind(8)] fn poly_is_in_list_0() { check_is_in_list(0) }
#[kani::proof] #[kani::unwind(8)] fn poly_is_in_list_1() { check_is_in_list(1) }
#[kani::proof] #[kani::unwind(8)] fn poly_is_in_list_2() { check_is_in_list(2) }
#[kani::proof] #[kani::unwind(8)] fn poly_is_in_list_3() { check_is_in_list(3) }
#[kani::proof] #[kani::unwind(8)] fn poly_is_in_list_4() { check_is_in_list(4) }

/// C13 guard: a semi-major axis >= pi/2 is rejected by a panic, whatever the other arguments,
/// in the plain and in the custom (delta_depth) entry points.
// Everything reachable after the guard is replaced by the marker: reaching it means the guard let
// the value through (keeps the query free of the trig / Vec / recursion code behind the guard).
fn reached_ellipse(_lon: f64, _lat: f64, _a: f64, _b: f64, _pa: f64) -> crate::sph_geom::elliptical_cone::EllipticalCone {
  assert!(false, "MUST_PANIC elliptical cone accepted a semi-major axis >= pi/2");
  loop {}
}
fn reached_allsky(_l: &Layer) -> BMOCBuilderUnsafe {
  assert!(false, "MUST_PANIC elliptical cone accepted a semi-major axis >= pi/2");
  loop {}
}
#[kani::proof] #[kani::unwind(4)]
#[kani::stub(crate::sph_geom::elliptical_cone::EllipticalCone::new, reached_ellipse)]
#[kani::stub(Layer::allsky_bmoc_builder, reached_allsky)]
fn ellipse_guard_must_panic() {
  let d: u8 = kani::any(); kani::assume(d <= 29);
  let l = Layer::new(d);
  let a: f64 = kani::any();
  kani::assume(a >= HALF_PI);
  kani::cover!(a > 10.0);
  let _ = l.elliptical_cone_coverage_internal(kani::any(), kani::any(), a, kani::any(), kani::any());
  assert!(false, "MUST_PANIC elliptical cone accepted a semi-major axis >= pi/2");
}
