//! Shared specification vocabulary (DESIGN.md §4). Every function here is TOTAL (wrapping
//! arithmetic, guarded shifts): Kani evaluates `ensures` closures on havocked results when a
//! contract is used as a stub, so a partial predicate would itself fail.
#![allow(dead_code)]

/// The z-order definition: bit k of `i` goes to bit 2k, bit k of `j` to bit 2k+1.
pub fn interleave(i: u32, j: u32) -> u64 {
  let mut r = 0u64;
  let mut k = 0u32;
  while k < 32 {
    r |= (((i >> k) & 1) as u64) << (2 * k);
    r |= (((j >> k) & 1) as u64) << (2 * k + 1);
    k += 1;
  }
  r
}

/// Even bits of `h`, compacted (inverse of `interleave` on the first coordinate).
pub fn even_bits(h: u64) -> u32 {
  let mut r = 0u32;
  let mut k = 0u32;
  while k < 32 {
    r |= (((h >> (2 * k)) & 1) as u32) << k;
    k += 1;
  }
  r
}
pub fn odd_bits(h: u64) -> u32 { even_bits(h >> 1) }

/// 4^d for d <= 31 (0 beyond, total).
pub fn pow4(d: u8) -> u64 { if d <= 31 { 1u64 << (2 * d as u32) } else { 0 } }
/// Number of cells at depth d: 12 * 4^d.
pub fn n_hash(d: u8) -> u64 { if d <= 29 { 12u64 << (2 * d as u32) } else { 0 } }
pub fn valid_cell(d: u8, h: u64) -> bool { d <= 29 && h < n_hash(d) }

/// uniq numbers, from the property statement: sentinel form = 4^(d+2) + h ; IVOA form = 4*4^d + h.
pub fn uniq(d: u8, h: u64) -> u64 { pow4(d.wrapping_add(2)).wrapping_add(h) }
pub fn uniq_ivoa(d: u8, h: u64) -> u64 { pow4(d).wrapping_mul(4).wrapping_add(h) }
