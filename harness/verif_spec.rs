//! Shared specification vocabulary (DESIGN.md §4). Every function here is TOTAL (wrapping
//! arithmetic, guarded shifts): Kani evaluates `ensures` closures on havocked results when a
//! contract is used as a stub, so a partial predicate would itself fail.
#![allow(dead_code)]

/// The z-order definition: bit k of `i` goes to bit 2k, bit k of `j` to bit 2k+1.
pub fn interleave(i: u32, j: u32) -> u64 {
  let mut r = 0u64;
  let mut k = 0u32;
  while k < 32 {
    r |= (((i >> k) & 1) as u64) << (2 * k);
    r |= (((j >> k) & 1) as u64) << (2 * k + 1);
    k += 1;
  }
  r
}

/// Even bits of `h`, compacted (inverse of `interleave` on the first coordinate).
pub fn even_bits(h: u64) -> u32 {
  let mut r = 0u32;
  let mut k = 0u32;
  while k < 32 {
    r |= (((h >> (2 * k)) & 1) as u32) << k;
    k += 1;
  }
  r
}
pub fn odd_bits(h: u64) -> u32 { even_bits(h >> 1) }

/// 4^d for d <= 31 (0 beyond, total).
pub fn pow4(d: u8) -> u64 { if d <= 31 { 1u64 << (2 * d as u32) } else { 0 } }
/// Number of cells at depth d: 12 * 4^d.
pub fn n_hash(d: u8) -> u64 { if d <= 29 { 12u64 << (2 * d as u32) } else { 0 } }
pub fn valid_cell(d: u8, h: u64) -> bool { d <= 29 && h < n_hash(d) }

/// uniq numbers, from the property statement: sentinel form = 4^(d+2) + h ; IVOA form = 4*4^d + h.
pub fn uniq(d: u8, h: u64) -> u64 { pow4(d.wrapping_add(2)).wrapping_add(h) }
pub fn uniq_ivoa(d: u8, h: u64) -> u64 { pow4(d).wrapping_mul(4).wrapping_add(h) }

// =================================================================================================
// Integer geometry of the HEALPix projection plane (DESIGN.md §4), independent of every table of
// the crate. Unit of length: 1/nside. A cell is (base cell b, i, j) with 0 <= i,j < n.
// =================================================================================================

/// Centre of base cell `b` in the 8x3 grid: NPC (b<4): (2b+1, 1); EQR: (2(b-4), 0); SPC: (2(b-8)+1, -1).
pub fn base_cell_center(b: u8) -> (i64, i64) {
  let row = (b / 4) as i64;          // 0 north, 1 equatorial, 2 south
  let col = (b % 4) as i64;
  let offy = 1 - row;
  let offx = 2 * col + if row != 1 { 1 } else { 0 };
  (offx, offy)
}

/// Centre of cell (b,i,j) at nside n, in units of 1/n (x may be negative for base cell 4).
pub fn cell_center(n: i64, b: u8, i: i64, j: i64) -> (i64, i64) {
  let (ox, oy) = base_cell_center(b);
  (ox * n + (i - j), oy * n + (i + j - (n - 1)))
}

/// Vertex k of a cell of centre (xc,yc): 0 = S, 1 = E, 2 = N, 3 = W (the crate's Cardinal order).
pub fn vertex(xc: i64, yc: i64, k: u8) -> (i64, i64) {
  match k { 0 => (xc, yc - 1), 1 => (xc + 1, yc), 2 => (xc, yc + 1), _ => (xc - 1, yc) }
}

/// Canonical identity of the point (x,y) (a vertex of a cell of base cell `b`) after gluing the
/// HEALPix net: equatorial band |y| <= n: (0, y, x mod 8n); north cap, t = 2n - y > 0:
/// (1, t, ring position p mod 8t) with p = 2t*q + (x - (2q+1)n) + t inside gore q = b; the pole
/// (t = 0) is a single point; south cap symmetric with q = b - 8.
pub fn canon(n: i64, b: u8, x: i64, y: i64) -> (u8, i64, i64) {
  // no symbolic multiplication: q in 0..=3 is expanded by cases (keeps the SAT encoding small)
  let q = b & 3;
  let apex_x = match q { 0 => n, 1 => 3 * n, 2 => 5 * n, _ => 7 * n }; // (2q+1) n
  if y > n || y < -n {
    let (reg, t) = if y > n { (1u8, 2 * n - y) } else { (2u8, 2 * n + y) };
    if t <= 0 { return (reg, 0, 0); }
    let t2 = t + t;
    let base = match q { 0 => 0, 1 => t2, 2 => t2 + t2, _ => t2 + t2 + t2 }; // 2 t q
    let t8 = t2 + t2 + t2 + t2;
    let mut p = base + (x - apex_x) + t;
    if p >= t8 { p -= t8; }
    if p < 0 { p += t8; }
    (reg, t, p)
  } else {
    let mut xm = x;
    if xm < 0 { xm += 8 * n; }
    if xm >= 8 * n { xm -= 8 * n; }
    (0, y, xm)
  }
}

/// The four canonical vertices of cell (b,i,j), in the order S, E, N, W.
pub fn cell_vertices(n: i64, b: u8, i: i64, j: i64) -> [(u8, i64, i64); 4] {
  let (xc, yc) = cell_center(n, b, i, j);
  let s = vertex(xc, yc, 0); let e = vertex(xc, yc, 1); let nn = vertex(xc, yc, 2); let w = vertex(xc, yc, 3);
  [canon(n, b, s.0, s.1), canon(n, b, e.0, e.1), canon(n, b, nn.0, nn.1), canon(n, b, w.0, w.1)]
}

/// Bit mask m (bit k set iff vertex k of `a` is also a vertex of `c`).
pub fn shared_mask(a: &[(u8, i64, i64); 4], c: &[(u8, i64, i64); 4]) -> u8 {
  let mut m = 0u8;
  let mut k = 0;
  while k < 4 {
    if a[k] == c[0] || a[k] == c[1] || a[k] == c[2] || a[k] == c[3] { m |= 1 << k; }
    k += 1;
  }
  m
}

/// One of the 8 points of the sphere where only three cells meet: (x = 0 mod 2n, y = +-n).
pub fn is_three_cell_point(n: i64, v: (u8, i64, i64)) -> bool {
  v.0 == 0 && (v.1 == n || v.1 == -n) && (v.2 == 0 || v.2 == 2 * n || v.2 == 4 * n || v.2 == 6 * n)
}

/// Decode a nested hash by the DEFINITION (base cell = h / 4^d, i = even bits, j = odd bits).
pub fn decode(d: u8, h: u64) -> (u8, i64, i64) {
  let low = if d == 0 { 0 } else { h & ((1u64 << (2 * d as u32)) - 1) };
  let b = (h >> (2 * d as u32)) as u8;
  (b, even_bits(low) as i64, odd_bits(low) as i64)
}
pub fn encode(d: u8, b: u8, i: u32, j: u32) -> u64 { ((b as u64) << (2 * d as u32)) | interleave(i, j) }

/// Mask of the vertices (S=1,E=2,N=4,W=8) of H that the cell stored under MainWind index `dir`
/// (S=0,SE=1,E=2,SW=3,C=4,NE=5,W=6,NW=7,N=8) must share with H, by the property statement.
pub fn expected_shared(dir: u8) -> u8 {
  match dir { 0 => 1, 1 => 1 | 2, 2 => 2, 3 => 1 | 8, 4 => 15, 5 => 4 | 2, 6 => 8, 7 => 4 | 8, _ => 4 }
}
