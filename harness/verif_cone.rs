//! C05 / C06 — cone coverage: threshold lemmas, recursion contract, all-sky. Child of src/nested/mod.rs.
#![allow(static_mut_refs)]
use super::*;
use crate::nested::bmoc::verif_bmoc as vb;

// ---- all sky -------------------------------------------------------------------------------------
/// radius >= pi (any centre, NaN centre included): the whole sky, full: every deepest cell is
/// covered exactly once by a full entry pushed at depth 0 (builder as contract).
fn check_allsky(d: u8) {
  let l = Layer::new(d);
  let r: f64 = kani::any();
  kani::assume(r >= PI);
  let c: u64 = kani::any();
  kani::assume(c < vb::n_hash(d));
  vb::g_reset(c, d);
  let b = l.cone_coverage_approx_internal(kani::any(), kani::any(), r);
  let (last_hi, state, count, ok) = vb::g_snapshot();
  assert!(b.depth_max_is(d), "C06 all-sky builder has the layer depth as maximal depth");
  assert!(ok && count == 1 && state == 2, "C06 radius >= pi: every cell of the sphere is covered, once, by a full entry");
  assert!(last_hi == vb::n_hash(d), "C06 radius >= pi: the 12 base cells, nothing beyond");
  assert!(vb::g_npush() == 1, "C06 radius >= pi: a single run of depth-0 cells (12 full base cells)");
}
/// anything after the all-sky shortcut: reaching it means the shortcut was not taken
fn reached_after_shortcut(_r: f64) -> bool { assert!(false, "C06 radius >= pi must take the all-sky shortcut"); kani::assume(false); true }
macro_rules! allsky_h { ($name:ident, $d:literal) => {
  #[kani::proof]
  #[kani::stub(BMOCBuilderUnsafe::new, vb::ghost_new)]
  #[kani::stub(BMOCBuilderUnsafe::push_all, vb::ghost_push_all)]
  #[kani::stub(crate::has_best_starting_depth, reached_after_shortcut)]
  #[kani::unwind(4)]
  fn $name() { check_allsky($d) }
} }
allsky_h!(cone_allsky_d00, 0);
allsky_h!(cone_allsky_d03, 3);
allsky_h!(cone_allsky_d29, 29);

// ---- thresholds ------------------------------------------------------------------------------------
// sin is replaced by a memoised monotone function on [0, pi/2] (facts: deterministic per argument,
// range [0,1], weakly increasing, sin(0) = 0): what to_shs_min_max relies on.
static mut S_ARG: [f64; 4] = [0.0; 4];
static mut S_VAL: [f64; 4] = [0.0; 4];
static mut S_N: usize = 0;
fn ax_sin_mono(x: f64) -> f64 {
  // sin on [-pi/2, pi/2]: odd, increasing, in [-1, 1], sin(0) = 0; beyond: any value in [-1, 1]
  // (NOT monotone there -- the thresholds must not rely on sin growing past pi/2).
  let ax = if x < 0.0 { -x } else { x };
  let r: f64 = kani::any();
  kani::assume(r >= 0.0 && r <= 1.0);
  if ax > std::f64::consts::FRAC_PI_2 { let sgn: bool = kani::any(); return if sgn { -r } else { r }; }
  if ax == 0.0 { kani::assume(r == 0.0); }
  unsafe {
    let mut k = 0;
    while k < 4 {
      if k < S_N {
        if ax == S_ARG[k] { kani::assume(r == S_VAL[k]); }
        if ax < S_ARG[k] { kani::assume(r <= S_VAL[k]); }
        if ax > S_ARG[k] { kani::assume(r >= S_VAL[k]); }
      }
      k += 1;
    }
    if S_N < 4 { S_ARG[S_N] = ax; S_VAL[S_N] = r; S_N += 1; }
  }
  if x < 0.0 { -r } else { r }
}
/// Contract of `to_squared_half_segment` used as a stub: even, increasing on [0, pi], in [0, 1], 0 at 0;
/// beyond pi: any value in [0, 1] (sin^2(x/2) decreases again there).
static mut H_ARG: [f64; 4] = [0.0; 4];
static mut H_VAL: [f64; 4] = [0.0; 4];
static mut H_N: usize = 0;
fn ax_shs_mono(x: f64) -> f64 {
  let ax = if x < 0.0 { -x } else { x };
  let r: f64 = kani::any();
  kani::assume(r >= 0.0 && r <= 1.0);
  if ax > PI { return r; }
  if ax == 0.0 { kani::assume(r == 0.0); }
  unsafe {
    let mut k = 0;
    while k < 4 {
      if k < H_N {
        if ax == H_ARG[k] { kani::assume(r == H_VAL[k]); }
        if ax < H_ARG[k] { kani::assume(r <= H_VAL[k]); }
        if ax > H_ARG[k] { kani::assume(r >= H_VAL[k]); }
      }
      k += 1;
    }
    if H_N < 4 { H_ARG[H_N] = ax; H_VAL[H_N] = r; H_N += 1; }
  }
  r
}
/// (T') thresholds against the contract of to_squared_half_segment (product-free, hence a proof):
/// a centre at angular distance a <= min(radius + d, pi) passes `shs <= max`; a <= radius - d passes
/// `shs <= min`; min <= max when radius >= d.  The contract itself (monotone on [0, pi]) is the
/// search unit cone_thresholds_contract.
#[kani::proof]
#[kani::stub(crate::to_squared_half_segment, ax_shs_mono)]
#[kani::unwind(6)]
fn cone_thresholds_struct() {
  let r: f64 = kani::any(); let d: f64 = kani::any(); let a: f64 = kani::any();
  kani::assume(r > 0.0 && r <= PI && d >= 0.0 && d <= 0.85 && a >= 0.0 && a <= PI);
  let arr = to_shs_min_max_array(r, vec![d].into_boxed_slice());
  let shs_a = crate::to_squared_half_segment(a);
  if a <= r + d { assert!(shs_a <= arr[0].max, "C05 a centre within radius + cell size passes the 'descend / keep' threshold (also when radius + cell size exceeds pi)"); }
  if a <= r - d { assert!(shs_a <= arr[0].min, "C06 a centre within radius - cell size passes the 'fully inside' threshold"); }
  if r >= d { assert!(arr[0].min <= arr[0].max, "C05/C06 thresholds ordered"); }
  kani::cover!(r + d > PI && a <= r + d, "radius + cell size beyond pi (clamped)");
}
/// Thresholds per recursion level, through to_shs_min_max_array (the function the coverage calls):
/// for 0 < r <= pi and cell sizes d_k in [0, 0.85], at every level k:
///  (F) the 'fully covered' test `shs <= min_k` can only succeed when radius >= d_k -- for EVERY
///      value of shs >= 0, zero included (a cell larger than the cone is never flagged full);
///  (M) min_k <= max_k when radius >= d_k.
#[kani::proof]
#[kani::stub(f64::sin, ax_sin_mono)]
#[kani::unwind(6)]
fn cone_full_only_if_radius_ge_cell() {
  let r: f64 = kani::any(); let d0: f64 = kani::any(); let d1: f64 = kani::any(); let d2: f64 = kani::any();
  kani::assume(r > 0.0 && r <= PI && d0 >= 0.0 && d0 <= 0.85 && d1 >= 0.0 && d1 <= 0.85 && d2 >= 0.0 && d2 <= 0.85);
  let arr = to_shs_min_max_array(r, vec![d0, d1, d2].into_boxed_slice());
  assert!(arr.len() == 3, "one threshold pair per level");
  let k: usize = kani::any(); kani::assume(k < 3);
  let dk = if k == 0 { d0 } else if k == 1 { d1 } else { d2 };
  let shs: f64 = kani::any();
  kani::assume(shs >= 0.0 && shs <= 1.0);            // any squared half segment, 0 included
  if shs <= arr[k].min { assert!(r >= dk, "C06 a cell larger than the cone is never flagged fully covered (whatever its centre distance, 0 included)"); }
  kani::cover!(r < dk && k == 2, "radius below the cell size at a deeper level");
}
/// (T) monotone thresholds: a centre within radius + d (clamped to pi) passes `shs <= max`, a centre
/// within radius - d passes `shs <= min`; needs two double products: time-bounded refutation search.
#[kani::proof]
#[kani::stub(f64::sin, ax_sin_mono)]
#[kani::unwind(6)]
fn cone_thresholds_contract() {
  let r: f64 = kani::any(); let d: f64 = kani::any(); let a: f64 = kani::any();
  kani::assume(r > 0.0 && r <= PI && d >= 0.0 && d <= 0.85 && a >= 0.0 && a <= PI);
  let arr = to_shs_min_max_array(r, vec![d].into_boxed_slice());
  let shs_a = crate::to_squared_half_segment(a);
  if a <= r + d { assert!(shs_a <= arr[0].max, "C05 a centre within radius + cell size passes the 'descend / keep' threshold"); }
  if a <= r - d { assert!(shs_a <= arr[0].min, "C06 a centre within radius - cell size passes the 'fully inside' threshold"); }
  if r >= d { assert!(arr[0].min <= arr[0].max, "C05/C06 thresholds ordered"); }
  kani::cover!(r + d > PI, "radius + cell size beyond pi (clamped)");
}

// ---- recursion contract ------------------------------------------------------------------------------
// get_or_create(depth).center(hash) is replaced by a tag (hash, depth) and the distance closure by
// an arbitrary table over the 21 cells of a 2-level tree: the descent is checked for EVERY
// assignment of distances and thresholds.
fn ghost_goc(depth: u8) -> &'static Layer { Box::leak(Box::new(Layer::new(depth))) }
fn ghost_center(l: &Layer, hash: u64) -> (f64, f64) { (hash as f64, l.depth as f64) }
static mut T_ROOT: u64 = 0;
static mut T_D0: u8 = 0;
static mut T_SHS: [f64; 21] = [0.0; 21];
fn t_index(lvl: u8, rel: u64) -> usize { match lvl { 0 => 0, 1 => 1 + (rel & 3) as usize, _ => 5 + (rel & 15) as usize } }
fn t_shs(c: (f64, f64)) -> f64 {
  unsafe {
    let depth = c.1 as u8; let hash = c.0 as u64;
    let lvl = depth - T_D0;
    let rel = hash - (T_ROOT << (2 * lvl as u32));
    T_SHS[t_index(lvl, rel)]
  }
}
fn check_recur(delta: u8) {
  let d0: u8 = kani::any(); kani::assume(d0 <= 5);
  let root: u64 = kani::any(); kani::assume(root < vb::n_hash(d0));
  let l = Layer::new(d0 + delta);
  let mm: [MinMax; 3] = [MinMax { min: kani::any(), max: kani::any() }, MinMax { min: kani::any(), max: kani::any() }, MinMax { min: kani::any(), max: kani::any() }];
  unsafe {
    T_ROOT = root; T_D0 = d0;
    let mut k = 0; while k < 21 { T_SHS[k] = kani::any(); kani::assume(T_SHS[k] >= 0.0 && T_SHS[k] <= 1.0); k += 1; }
  }
  let mut k = 0; while k < 3 { kani::assume(mm[k].min >= 0.0 && mm[k].min <= mm[k].max && mm[k].max <= 1.0); k += 1; }
  // tracked deepest cell c under the root, at depth d0 + delta
  let rel: u64 = kani::any(); kani::assume(rel < (1u64 << (2 * delta as u32)));
  let c = (root << (2 * delta as u32)) | rel;
  vb::g_reset(c, d0 + delta);
  let mut b = BMOCBuilderUnsafe::new(d0 + delta, 0);
  l.cone_coverage_approx_recur(d0, root, &t_shs, &mm[..(delta as usize + 1)], 0, &mut b);
  let (_, state, count, ok) = vb::g_snapshot();
  // expected state of c by the documented rule, level by level
  let mut expect = 0u8; let mut lvl = 0u8; let mut done = false;
  while lvl <= 2 {
    if !done && lvl <= delta {
      let s = unsafe { T_SHS[t_index(lvl, rel >> (2 * (delta - lvl) as u32))] };
      if s <= mm[lvl as usize].min { expect = 2; done = true; }
      else if s <= mm[lvl as usize].max { if lvl == delta { expect = 1; done = true; } }
      else { expect = 0; done = true; }
    }
    lvl += 1;
  }
  assert!(ok && count <= 1, "C09 coverage recursion pushes valid cells in strictly increasing, disjoint order");
  assert!(state == expect, "C05/C06 descent: full iff centre distance <= min, kept/descended iff <= max, dropped otherwise");
  kani::cover!(expect == 1, "partial cell at the requested depth");
  kani::cover!(expect == 2, "full cell");
}
macro_rules! recur_h { ($name:ident, $dl:literal) => {
  #[kani::proof]
  #[kani::stub(crate::nested::get_or_create, ghost_goc)]
  #[kani::stub(Layer::center, ghost_center)]
  #[kani::stub(BMOCBuilderUnsafe::new, vb::ghost_new)]
  #[kani::stub(BMOCBuilderUnsafe::push, vb::ghost_push)]
  #[kani::unwind(22)]
  fn $name() { check_recur($dl) }
} }
recur_h!(cone_recur_delta0, 0);
recur_h!(cone_recur_delta1, 1);
recur_h!(cone_recur_delta2, 2);
