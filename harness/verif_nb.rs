//! C04 — neighbours vs the integer vertex-sharing oracle. Child module of src/nested/mod.rs.
use super::*;
use crate::verif_spec as sp;
use crate::compass_point::MainWind;

fn in_map(m: &MainWindMap<u64>, x: u64) -> bool {
  let mut k = 0u8;
  let mut r = false;
  while k < 9 {
    if k != 4 { if let Some(v) = m.get(MainWind::from_index(k)) { if *v == x { r = true; } } }
    k += 1;
  }
  r
}

/// neighbours(H) contains exactly the cells touching H, correctly labelled, for ALL cells of depth D.
fn nb_exact(d: u8) {
  let l = Layer::new(d);
  let n = 1i64 << d;
  let h: u64 = kani::any();
  kani::assume(h < sp::n_hash(d));
  let m = l.neighbours(h, false);
  let (b, i, j) = sp::decode(d, h);
  let vh = sp::cell_vertices(n, b, i, j);
  // (1) labels: the cell under each direction shares exactly the vertices that direction names
  let mut count = 0u8;
  let mut k = 0u8;
  while k < 9 {
    if k != 4 {
      if let Some(&x) = m.get(MainWind::from_index(k)) {
        count += 1;
        assert!(x < sp::n_hash(d) && x != h, "C04 neighbour is a valid cell distinct from H");
        let (b2, i2, j2) = sp::decode(d, x);
        let vx = sp::cell_vertices(n, b2, i2, j2);
        assert!(sp::shared_mask(&vh, &vx) == sp::expected_shared(k), "C04 label: cell under a direction shares exactly that edge / vertex");
      }
    } else {
      assert!(m.get(MainWind::C).is_none(), "C04 centre absent when include_center == false");
    }
    k += 1;
  }
  // (2) exactness: an arbitrary other cell is in the map iff it shares a vertex with H
  let x: u64 = kani::any();
  kani::assume(x < sp::n_hash(d) && x != h);
  let (b2, i2, j2) = sp::decode(d, x);
  let vx = sp::cell_vertices(n, b2, i2, j2);
  let touch = sp::shared_mask(&vh, &vx) != 0;
  assert!(in_map(&m, x) == touch, "C04 neighbours == exactly the cells sharing a vertex with H");
  // (3) count: 8 minus one per vertex of H lying on a three-cell point
  let mut special = 0u8;
  let mut q = 0;
  while q < 4 { if sp::is_three_cell_point(n, vh[q]) { special += 1; } q += 1; }
  assert!(count == 8 - special, "C04 8 neighbours, minus one per three-cell point among H's vertices");
  if d == 0 { assert!(count == 6, "C04 base cells have 6 neighbours"); } else { assert!(count == 8 || count == 7); }
  kani::cover!(count == 8 - special && special > 0, "a cell at a three-cell point");
  kani::cover!(d == 0 || count == 8, "a cell with 8 neighbours");
  kani::cover!(touch && b != b2, "neighbour across a base-cell seam");
  kani::cover!(b < 4 && b2 < 4 && b != b2 && touch, "polar-cap seam");
}

/// CONTRACT of Layer::neighbour_from_parts(b, i, j, dir), for ALL cells (b,i,j) of depth d and all
/// directions: Some(x) => x is a valid cell that shares with (b,i,j) exactly the edge / the vertex
/// named by `dir`; None <=> `dir` is a corner whose vertex is one of the 8 three-cell points.
fn nfp_label(d: u8) { nfp_label_k(d, 0, 8) }
fn nfp_label_k(d: u8, klo: u8, khi: u8) {
  let l = Layer::new(d);
  let n = 1i64 << d;
  let b: u8 = kani::any();
  let i: u32 = kani::any();
  let j: u32 = kani::any();
  kani::assume(b < 12 && (i as i64) < n && (j as i64) < n);
  let k: u8 = kani::any();
  kani::assume(k < 9 && klo <= k && k <= khi);
  let vh = sp::cell_vertices(n, b, i as i64, j as i64);
  let exp = sp::expected_shared(k);
  let is_corner = exp == 1 || exp == 2 || exp == 4 || exp == 8;
  let corner_is_special = is_corner && sp::is_three_cell_point(n, vh[exp.trailing_zeros() as usize]);
  match l.neighbour_from_parts(b, i, j, MainWind::from_index(k)) {
    Some(x) => {
      assert!(x < sp::n_hash(d), "C04 neighbour is a valid cell number");
      let (b2, i2, j2) = sp::decode(d, x);
      let vx = sp::cell_vertices(n, b2, i2, j2);
      assert!(sp::shared_mask(&vh, &vx) == exp, "C04 label: cell under a direction shares exactly that edge / vertex");
      assert!(!corner_is_special, "C04 no fourth cell exists at a three-cell point");
      if k == 4 { assert!(x == sp::encode(d, b, i, j), "C04 direction C is the cell itself"); }
      else { assert!(x != sp::encode(d, b, i, j), "C04 a neighbour is another cell"); }
      kani::cover!(b2 != b || k == 4, "neighbour across a base-cell seam");
    }
    None => {
      assert!(corner_is_special, "C04 a direction is empty only at a three-cell point");
    }
  }
}

/// neighbours(h, c) is, direction by direction, neighbour_from_parts of the decoded cell (both the
/// inner-cell bit-trick path and the border path), C present iff requested; neighbour(h,dir) too.
fn nb_compose(d: u8) {
  let l = Layer::new(d);
  let h: u64 = kani::any();
  kani::assume(h < sp::n_hash(d));
  let c: bool = kani::any();
  let m = l.neighbours(h, c);
  let (b, i, j) = sp::decode(d, h);
  let k: u8 = kani::any();
  kani::assume(k < 9);
  let r = l.neighbour_from_parts(b, i as u32, j as u32, MainWind::from_index(k));
  let got = match m.get(MainWind::from_index(k)) { Some(&x) => Some(x), None => None };
  if k == 4 {
    assert!(got == if c { Some(h) } else { None }, "C04 centre entry present iff include_center, and equal to H");
    assert!(r == Some(h));
  } else {
    assert!(got == r, "C04 neighbours(h).get(dir) == neighbour_from_parts(decode(h), dir)");
  }
  assert!(l.neighbour(h, MainWind::from_index(k)) == r, "C04 neighbour(h,dir) == neighbour_from_parts(decode(h), dir)");
  kani::cover!(i > 0 && j > 0 && (i as i64) < (1i64 << d) - 1 && (j as i64) < (1i64 << d) - 1 || d < 2, "inner-cell path");
  kani::cover!(i == 0, "border path");
}

/// symmetry on the real code + neighbour(h,dir) agrees with neighbours(h) for the nine directions
fn nb_sym_agree(d: u8) {
  let l = Layer::new(d);
  let h: u64 = kani::any();
  kani::assume(h < sp::n_hash(d));
  let m = l.neighbours(h, true);
  let k: u8 = kani::any();
  kani::assume(k < 9);
  let single = l.neighbour(h, MainWind::from_index(k));
  match m.get(MainWind::from_index(k)) {
    Some(&x) => {
      assert!(single == Some(x), "C04 neighbour(h,dir) == neighbours(h).get(dir)");
      if k != 4 {
        let back = l.neighbours(x, false);
        assert!(in_map(&back, h), "C04 symmetry: H is a neighbour of each of its neighbours");
      } else {
        assert!(x == h, "C04 centre entry is H itself");
      }
    }
    None => assert!(single.is_none(), "C04 neighbour(h,dir) is None when neighbours(h) has no entry"),
  }
  kani::cover!(m.get(MainWind::from_index(k)).is_none(), "missing direction");
  kani::cover!(k == 4);
}

fn nb_must_panic(d: u8) {
  let l = Layer::new(d);
  let h: u64 = kani::any();
  kani::assume(h >= sp::n_hash(d));
  let which: u8 = kani::any();
  if which == 0 {
    let _ = l.neighbours(h, kani::any());
  } else {
    let k: u8 = kani::any();
    kani::assume(k < 9);
    let _ = l.neighbour(h, MainWind::from_index(k));
  }
  assert!(false, "MUST_PANIC neighbours/neighbour accepted a cell number >= 12*4^depth");
}

fn nb_canary(d: u8) {
  let l = Layer::new(d);
  let n = 1i64 << d;
  let h: u64 = kani::any();
  kani::assume(h < sp::n_hash(d));
  let m = l.neighbours(h, false);
  let (b, i, j) = sp::decode(d, h);
  let vh = sp::cell_vertices(n, b, i, j);
  if let Some(&x) = m.get(MainWind::SE) {
    let (b2, i2, j2) = sp::decode(d, x);
    let vx = sp::cell_vertices(n, b2, i2, j2);
    assert!(sp::shared_mask(&vh, &vx) == sp::expected_shared(3), "CANARY SE neighbour does not share the SW edge");
  }
}

/// CONTRACT of Layer::build_hash_from_parts (codec layer), proved per z-order class with the depth
/// symbolic inside the class; used as a verified stub by nfp_label_*.
fn bhfp_contract(lo: u8, hi: u8) {
  let d: u8 = kani::any();
  kani::assume(lo <= d && d <= hi);
  let l = Layer::new(d);
  let b: u8 = kani::any(); let i: u32 = kani::any(); let j: u32 = kani::any();
  let r = l.build_hash_from_parts(b, i, j);
  assert!(r == sp::encode(d, b, i, j) && r < sp::n_hash(d), "C04/C01 build_hash_from_parts == (b << 2d) | interleave(i,j)");
  kani::cover!(d == hi && i == (1u32 << d) - 1 && j == (1u32 << d) - 1 && b == 11);
}
#[kani::proof_for_contract(Layer::build_hash_from_parts)] #[kani::unwind(33)] fn bhfp_contract_d0() { bhfp_contract(0, 0) }
#[kani::proof_for_contract(Layer::build_hash_from_parts)] #[kani::unwind(33)] fn bhfp_contract_small() { bhfp_contract(1, 8) }
#[kani::proof_for_contract(Layer::build_hash_from_parts)] #[kani::unwind(33)] fn bhfp_contract_mediu() { bhfp_contract(9, 16) }
#[kani::proof_for_contract(Layer::build_hash_from_parts)] #[kani::unwind(33)] fn bhfp_contract_large() { bhfp_contract(17, 29) }

// ---- generated list of per-depth harnesses (bin/gen_nb_harness.py) ----
#[kani::proof] #[kani::unwind(33)] fn nb_compose_d00() { nb_compose(0) }
#[kani::proof] #[kani::unwind(33)] fn nb_panic_d00() { nb_must_panic(0) }
#[kani::proof] #[kani::stub_verified(Layer::build_hash_from_parts)] #[kani::unwind(33)] fn nfp_label_d00() { nfp_label(0) }
#[kani::proof] #[kani::unwind(33)] fn nb_exact_d00() { nb_exact(0) }
#[kani::proof] #[kani::unwind(33)] fn nb_sym_d00() { nb_sym_agree(0) }
#[kani::proof] #[kani::unwind(33)] fn nb_compose_d01() { nb_compose(1) }
#[kani::proof] #[kani::unwind(33)] fn nb_panic_d01() { nb_must_panic(1) }
#[kani::proof] #[kani::stub_verified(Layer::build_hash_from_parts)] #[kani::unwind(33)] fn nfp_label_d01() { nfp_label(1) }
#[kani::proof] #[kani::unwind(33)] fn nb_exact_d01() { nb_exact(1) }
#[kani::proof] #[kani::unwind(33)] fn nb_sym_d01() { nb_sym_agree(1) }
#[kani::proof] #[kani::unwind(33)] fn nb_compose_d02() { nb_compose(2) }
#[kani::proof] #[kani::unwind(33)] fn nb_panic_d02() { nb_must_panic(2) }
#[kani::proof] #[kani::stub_verified(Layer::build_hash_from_parts)] #[kani::unwind(33)] fn nfp_label_d02() { nfp_label(2) }
#[kani::proof] #[kani::unwind(33)] fn nb_exact_d02() { nb_exact(2) }
#[kani::proof] #[kani::unwind(33)] fn nb_sym_d02() { nb_sym_agree(2) }
#[kani::proof] #[kani::unwind(33)] fn nb_compose_d03() { nb_compose(3) }
#[kani::proof] #[kani::unwind(33)] fn nb_panic_d03() { nb_must_panic(3) }
#[kani::proof] #[kani::stub_verified(Layer::build_hash_from_parts)] #[kani::unwind(33)] fn nfp_label_d03() { nfp_label(3) }
#[kani::proof] #[kani::unwind(33)] fn nb_exact_d03() { nb_exact(3) }
#[kani::proof] #[kani::unwind(33)] fn nb_sym_d03() { nb_sym_agree(3) }
#[kani::proof] #[kani::unwind(33)] fn nb_compose_d04() { nb_compose(4) }
#[kani::proof] #[kani::unwind(33)] fn nb_panic_d04() { nb_must_panic(4) }
#[kani::proof] #[kani::stub_verified(Layer::build_hash_from_parts)] #[kani::unwind(33)] fn nfp_label_d04() { nfp_label(4) }
#[kani::proof] #[kani::unwind(33)] fn nb_compose_d05() { nb_compose(5) }
#[kani::proof] #[kani::unwind(33)] fn nb_panic_d05() { nb_must_panic(5) }
#[kani::proof] #[kani::stub_verified(Layer::build_hash_from_parts)] #[kani::unwind(33)] fn nfp_label_d05() { nfp_label(5) }
#[kani::proof] #[kani::unwind(33)] fn nb_compose_d06() { nb_compose(6) }
#[kani::proof] #[kani::unwind(33)] fn nb_panic_d06() { nb_must_panic(6) }
#[kani::proof] #[kani::stub_verified(Layer::build_hash_from_parts)] #[kani::unwind(33)] fn nfp_label_d06_k0() { nfp_label_k(6, 0, 0) }
#[kani::proof] #[kani::stub_verified(Layer::build_hash_from_parts)] #[kani::unwind(33)] fn nfp_label_d06_k1() { nfp_label_k(6, 1, 1) }
#[kani::proof] #[kani::stub_verified(Layer::build_hash_from_parts)] #[kani::unwind(33)] fn nfp_label_d06_k2() { nfp_label_k(6, 2, 2) }
#[kani::proof] #[kani::stub_verified(Layer::build_hash_from_parts)] #[kani::unwind(33)] fn nfp_label_d06_k3() { nfp_label_k(6, 3, 3) }
#[kani::proof] #[kani::stub_verified(Layer::build_hash_from_parts)] #[kani::unwind(33)] fn nfp_label_d06_k4() { nfp_label_k(6, 4, 4) }
#[kani::proof] #[kani::stub_verified(Layer::build_hash_from_parts)] #[kani::unwind(33)] fn nfp_label_d06_k5() { nfp_label_k(6, 5, 5) }
#[kani::proof] #[kani::stub_verified(Layer::build_hash_from_parts)] #[kani::unwind(33)] fn nfp_label_d06_k6() { nfp_label_k(6, 6, 6) }
#[kani::proof] #[kani::stub_verified(Layer::build_hash_from_parts)] #[kani::unwind(33)] fn nfp_label_d06_k7() { nfp_label_k(6, 7, 7) }
#[kani::proof] #[kani::stub_verified(Layer::build_hash_from_parts)] #[kani::unwind(33)] fn nfp_label_d06_k8() { nfp_label_k(6, 8, 8) }
#[kani::proof] #[kani::unwind(33)] fn nb_compose_d07() { nb_compose(7) }
#[kani::proof] #[kani::unwind(33)] fn nb_panic_d07() { nb_must_panic(7) }
#[kani::proof] #[kani::stub_verified(Layer::build_hash_from_parts)] #[kani::unwind(33)] fn nfp_label_d07_k0() { nfp_label_k(7, 0, 0) }
#[kani::proof] #[kani::stub_verified(Layer::build_hash_from_parts)] #[kani::unwind(33)] fn nfp_label_d07_k1() { nfp_label_k(7, 1, 1) }
#[kani::proof] #[kani::stub_verified(Layer::build_hash_from_parts)] #[kani::unwind(33)] fn nfp_label_d07_k2() { nfp_label_k(7, 2, 2) }
#[kani::proof] #[kani::stub_verified(Layer::build_hash_from_parts)] #[kani::unwind(33)] fn nfp_label_d07_k3() { nfp_label_k(7, 3, 3) }
#[kani::proof] #[kani::stub_verified(Layer::build_hash_from_parts)] #[kani::unwind(33)] fn nfp_label_d07_k4() { nfp_label_k(7, 4, 4) }
#[kani::proof] #[kani::stub_verified(Layer::build_hash_from_parts)] #[kani::unwind(33)] fn nfp_label_d07_k5() { nfp_label_k(7, 5, 5) }
#[kani::proof] #[kani::stub_verified(Layer::build_hash_from_parts)] #[kani::unwind(33)] fn nfp_label_d07_k6() { nfp_label_k(7, 6, 6) }
#[kani::proof] #[kani::stub_verified(Layer::build_hash_from_parts)] #[kani::unwind(33)] fn nfp_label_d07_k7() { nfp_label_k(7, 7, 7) }
#[kani::proof] #[kani::stub_verified(Layer::build_hash_from_parts)] #[kani::unwind(33)] fn nfp_label_d07_k8() { nfp_label_k(7, 8, 8) }
#[kani::proof] #[kani::unwind(33)] fn nb_compose_d08() { nb_compose(8) }
#[kani::proof] #[kani::unwind(33)] fn nb_panic_d08() { nb_must_panic(8) }
#[kani::proof] #[kani::stub_verified(Layer::build_hash_from_parts)] #[kani::unwind(33)] fn nfp_label_d08_k0() { nfp_label_k(8, 0, 0) }
#[kani::proof] #[kani::stub_verified(Layer::build_hash_from_parts)] #[kani::unwind(33)] fn nfp_label_d08_k1() { nfp_label_k(8, 1, 1) }
#[kani::proof] #[kani::stub_verified(Layer::build_hash_from_parts)] #[kani::unwind(33)] fn nfp_label_d08_k2() { nfp_label_k(8, 2, 2) }
#[kani::proof] #[kani::stub_verified(Layer::build_hash_from_parts)] #[kani::unwind(33)] fn nfp_label_d08_k3() { nfp_label_k(8, 3, 3) }
#[kani::proof] #[kani::stub_verified(Layer::build_hash_from_parts)] #[kani::unwind(33)] fn nfp_label_d08_k4() { nfp_label_k(8, 4, 4) }
#[kani::proof] #[kani::stub_verified(Layer::build_hash_from_parts)] #[kani::unwind(33)] fn nfp_label_d08_k5() { nfp_label_k(8, 5, 5) }
#[kani::proof] #[kani::stub_verified(Layer::build_hash_from_parts)] #[kani::unwind(33)] fn nfp_label_d08_k6() { nfp_label_k(8, 6, 6) }
#[kani::proof] #[kani::stub_verified(Layer::build_hash_from_parts)] #[kani::unwind(33)] fn nfp_label_d08_k7() { nfp_label_k(8, 7, 7) }
#[kani::proof] #[kani::stub_verified(Layer::build_hash_from_parts)] #[kani::unwind(33)] fn nfp_label_d08_k8() { nfp_label_k(8, 8, 8) }
#[kani::proof] #[kani::unwind(33)] fn nb_compose_d09() { nb_compose(9) }
#[kani::proof] #[kani::unwind(33)] fn nb_panic_d09() { nb_must_panic(9) }
#[kani::proof] #[kani::stub_verified(Layer::build_hash_from_parts)] #[kani::unwind(33)] fn nfp_label_d09_k0() { nfp_label_k(9, 0, 0) }
#[kani::proof] #[kani::stub_verified(Layer::build_hash_from_parts)] #[kani::unwind(33)] fn nfp_label_d09_k1() { nfp_label_k(9, 1, 1) }
#[kani::proof] #[kani::stub_verified(Layer::build_hash_from_parts)] #[kani::unwind(33)] fn nfp_label_d09_k2() { nfp_label_k(9, 2, 2) }
#[kani::proof] #[kani::stub_verified(Layer::build_hash_from_parts)] #[kani::unwind(33)] fn nfp_label_d09_k3() { nfp_label_k(9, 3, 3) }
#[kani::proof] #[kani::stub_verified(Layer::build_hash_from_parts)] #[kani::unwind(33)] fn nfp_label_d09_k4() { nfp_label_k(9, 4, 4) }
#[kani::proof] #[kani::stub_verified(Layer::build_hash_from_parts)] #[kani::unwind(33)] fn nfp_label_d09_k5() { nfp_label_k(9, 5, 5) }
#[kani::proof] #[kani::stub_verified(Layer::build_hash_from_parts)] #[kani::unwind(33)] fn nfp_label_d09_k6() { nfp_label_k(9, 6, 6) }
#[kani::proof] #[kani::stub_verified(Layer::build_hash_from_parts)] #[kani::unwind(33)] fn nfp_label_d09_k7() { nfp_label_k(9, 7, 7) }
#[kani::proof] #[kani::stub_verified(Layer::build_hash_from_parts)] #[kani::unwind(33)] fn nfp_label_d09_k8() { nfp_label_k(9, 8, 8) }
#[kani::proof] #[kani::unwind(33)] fn nb_compose_d10() { nb_compose(10) }
#[kani::proof] #[kani::unwind(33)] fn nb_panic_d10() { nb_must_panic(10) }
#[kani::proof] #[kani::stub_verified(Layer::build_hash_from_parts)] #[kani::unwind(33)] fn nfp_label_d10_k0() { nfp_label_k(10, 0, 0) }
#[kani::proof] #[kani::stub_verified(Layer::build_hash_from_parts)] #[kani::unwind(33)] fn nfp_label_d10_k1() { nfp_label_k(10, 1, 1) }
#[kani::proof] #[kani::stub_verified(Layer::build_hash_from_parts)] #[kani::unwind(33)] fn nfp_label_d10_k2() { nfp_label_k(10, 2, 2) }
#[kani::proof] #[kani::stub_verified(Layer::build_hash_from_parts)] #[kani::unwind(33)] fn nfp_label_d10_k3() { nfp_label_k(10, 3, 3) }
#[kani::proof] #[kani::stub_verified(Layer::build_hash_from_parts)] #[kani::unwind(33)] fn nfp_label_d10_k4() { nfp_label_k(10, 4, 4) }
#[kani::proof] #[kani::stub_verified(Layer::build_hash_from_parts)] #[kani::unwind(33)] fn nfp_label_d10_k5() { nfp_label_k(10, 5, 5) }
#[kani::proof] #[kani::stub_verified(Layer::build_hash_from_parts)] #[kani::unwind(33)] fn nfp_label_d10_k6() { nfp_label_k(10, 6, 6) }
#[kani::proof] #[kani::stub_verified(Layer::build_hash_from_parts)] #[kani::unwind(33)] fn nfp_label_d10_k7() { nfp_label_k(10, 7, 7) }
#[kani::proof] #[kani::stub_verified(Layer::build_hash_from_parts)] #[kani::unwind(33)] fn nfp_label_d10_k8() { nfp_label_k(10, 8, 8) }
#[kani::proof] #[kani::unwind(33)] fn nb_compose_d11() { nb_compose(11) }
#[kani::proof] #[kani::unwind(33)] fn nb_panic_d11() { nb_must_panic(11) }
#[kani::proof] #[kani::stub_verified(Layer::build_hash_from_parts)] #[kani::unwind(33)] fn nfp_label_d11_k0() { nfp_label_k(11, 0, 0) }
#[kani::proof] #[kani::stub_verified(Layer::build_hash_from_parts)] #[kani::unwind(33)] fn nfp_label_d11_k1() { nfp_label_k(11, 1, 1) }
#[kani::proof] #[kani::stub_verified(Layer::build_hash_from_parts)] #[kani::unwind(33)] fn nfp_label_d11_k2() { nfp_label_k(11, 2, 2) }
#[kani::proof] #[kani::stub_verified(Layer::build_hash_from_parts)] #[kani::unwind(33)] fn nfp_label_d11_k3() { nfp_label_k(11, 3, 3) }
#[kani::proof] #[kani::stub_verified(Layer::build_hash_from_parts)] #[kani::unwind(33)] fn nfp_label_d11_k4() { nfp_label_k(11, 4, 4) }
#[kani::proof] #[kani::stub_verified(Layer::build_hash_from_parts)] #[kani::unwind(33)] fn nfp_label_d11_k5() { nfp_label_k(11, 5, 5) }
#[kani::proof] #[kani::stub_verified(Layer::build_hash_from_parts)] #[kani::unwind(33)] fn nfp_label_d11_k6() { nfp_label_k(11, 6, 6) }
#[kani::proof] #[kani::stub_verified(Layer::build_hash_from_parts)] #[kani::unwind(33)] fn nfp_label_d11_k7() { nfp_label_k(11, 7, 7) }
#[kani::proof] #[kani::stub_verified(Layer::build_hash_from_parts)] #[kani::unwind(33)] fn nfp_label_d11_k8() { nfp_label_k(11, 8, 8) }
#[kani::proof] #[kani::unwind(33)] fn nb_compose_d12() { nb_compose(12) }
#[kani::proof] #[kani::unwind(33)] fn nb_panic_d12() { nb_must_panic(12) }
#[kani::proof] #[kani::stub_verified(Layer::build_hash_from_parts)] #[kani::unwind(33)] fn nfp_label_d12_k0() { nfp_label_k(12, 0, 0) }
#[kani::proof] #[kani::stub_verified(Layer::build_hash_from_parts)] #[kani::unwind(33)] fn nfp_label_d12_k1() { nfp_label_k(12, 1, 1) }
#[kani::proof] #[kani::stub_verified(Layer::build_hash_from_parts)] #[kani::unwind(33)] fn nfp_label_d12_k2() { nfp_label_k(12, 2, 2) }
#[kani::proof] #[kani::stub_verified(Layer::build_hash_from_parts)] #[kani::unwind(33)] fn nfp_label_d12_k3() { nfp_label_k(12, 3, 3) }
#[kani::proof] #[kani::stub_verified(Layer::build_hash_from_parts)] #[kani::unwind(33)] fn nfp_label_d12_k4() { nfp_label_k(12, 4, 4) }
#[kani::proof] #[kani::stub_verified(Layer::build_hash_from_parts)] #[kani::unwind(33)] fn nfp_label_d12_k5() { nfp_label_k(12, 5, 5) }
#[kani::proof] #[kani::stub_verified(Layer::build_hash_from_parts)] #[kani::unwind(33)] fn nfp_label_d12_k6() { nfp_label_k(12, 6, 6) }
#[kani::proof] #[kani::stub_verified(Layer::build_hash_from_parts)] #[kani::unwind(33)] fn nfp_label_d12_k7() { nfp_label_k(12, 7, 7) }
#[kani::proof] #[kani::stub_verified(Layer::build_hash_from_parts)] #[kani::unwind(33)] fn nfp_label_d12_k8() { nfp_label_k(12, 8, 8) }
#[kani::proof] #[kani::unwind(33)] fn nb_compose_d13() { nb_compose(13) }
#[kani::proof] #[kani::unwind(33)] fn nb_panic_d13() { nb_must_panic(13) }
#[kani::proof] #[kani::stub_verified(Layer::build_hash_from_parts)] #[kani::unwind(33)] fn nfp_label_d13_k0() { nfp_label_k(13, 0, 0) }
#[kani::proof] #[kani::stub_verified(Layer::build_hash_from_parts)] #[kani::unwind(33)] fn nfp_label_d13_k1() { nfp_label_k(13, 1, 1) }
#[kani::proof] #[kani::stub_verified(Layer::build_hash_from_parts)] #[kani::unwind(33)] fn nfp_label_d13_k2() { nfp_label_k(13, 2, 2) }
#[kani::proof] #[kani::stub_verified(Layer::build_hash_from_parts)] #[kani::unwind(33)] fn nfp_label_d13_k3() { nfp_label_k(13, 3, 3) }
#[kani::proof] #[kani::stub_verified(Layer::build_hash_from_parts)] #[kani::unwind(33)] fn nfp_label_d13_k4() { nfp_label_k(13, 4, 4) }
#[kani::proof] #[kani::stub_verified(Layer::build_hash_from_parts)] #[kani::unwind(33)] fn nfp_label_d13_k5() { nfp_label_k(13, 5, 5) }
#[kani::proof] #[kani::stub_verified(Layer::build_hash_from_parts)] #[kani::unwind(33)] fn nfp_label_d13_k6() { nfp_label_k(13, 6, 6) }
#[kani::proof] #[kani::stub_verified(Layer::build_hash_from_parts)] #[kani::unwind(33)] fn nfp_label_d13_k7() { nfp_label_k(13, 7, 7) }
#[kani::proof] #[kani::stub_verified(Layer::build_hash_from_parts)] #[kani::unwind(33)] fn nfp_label_d13_k8() { nfp_label_k(13, 8, 8) }
#[kani::proof] #[kani::unwind(33)] fn nb_compose_d14() { nb_compose(14) }
#[kani::proof] #[kani::unwind(33)] fn nb_panic_d14() { nb_must_panic(14) }
#[kani::proof] #[kani::stub_verified(Layer::build_hash_from_parts)] #[kani::unwind(33)] fn nfp_label_d14_k0() { nfp_label_k(14, 0, 0) }
#[kani::proof] #[kani::stub_verified(Layer::build_hash_from_parts)] #[kani::unwind(33)] fn nfp_label_d14_k1() { nfp_label_k(14, 1, 1) }
#[kani::proof] #[kani::stub_verified(Layer::build_hash_from_parts)] #[kani::unwind(33)] fn nfp_label_d14_k2() { nfp_label_k(14, 2, 2) }
#[kani::proof] #[kani::stub_verified(Layer::build_hash_from_parts)] #[kani::unwind(33)] fn nfp_label_d14_k3() { nfp_label_k(14, 3, 3) }
#[kani::proof] #[kani::stub_verified(Layer::build_hash_from_parts)] #[kani::unwind(33)] fn nfp_label_d14_k4() { nfp_label_k(14, 4, 4) }
#[kani::proof] #[kani::stub_verified(Layer::build_hash_from_parts)] #[kani::unwind(33)] fn nfp_label_d14_k5() { nfp_label_k(14, 5, 5) }
#[kani::proof] #[kani::stub_verified(Layer::build_hash_from_parts)] #[kani::unwind(33)] fn nfp_label_d14_k6() { nfp_label_k(14, 6, 6) }
#[kani::proof] #[kani::stub_verified(Layer::build_hash_from_parts)] #[kani::unwind(33)] fn nfp_label_d14_k7() { nfp_label_k(14, 7, 7) }
#[kani::proof] #[kani::stub_verified(Layer::build_hash_from_parts)] #[kani::unwind(33)] fn nfp_label_d14_k8() { nfp_label_k(14, 8, 8) }
#[kani::proof] #[kani::unwind(33)] fn nb_compose_d15() { nb_compose(15) }
#[kani::proof] #[kani::unwind(33)] fn nb_panic_d15() { nb_must_panic(15) }
#[kani::proof] #[kani::stub_verified(Layer::build_hash_from_parts)] #[kani::unwind(33)] fn nfp_label_d15_k0() { nfp_label_k(15, 0, 0) }
#[kani::proof] #[kani::stub_verified(Layer::build_hash_from_parts)] #[kani::unwind(33)] fn nfp_label_d15_k1() { nfp_label_k(15, 1, 1) }
#[kani::proof] #[kani::stub_verified(Layer::build_hash_from_parts)] #[kani::unwind(33)] fn nfp_label_d15_k2() { nfp_label_k(15, 2, 2) }
#[kani::proof] #[kani::stub_verified(Layer::build_hash_from_parts)] #[kani::unwind(33)] fn nfp_label_d15_k3() { nfp_label_k(15, 3, 3) }
#[kani::proof] #[kani::stub_verified(Layer::build_hash_from_parts)] #[kani::unwind(33)] fn nfp_label_d15_k4() { nfp_label_k(15, 4, 4) }
#[kani::proof] #[kani::stub_verified(Layer::build_hash_from_parts)] #[kani::unwind(33)] fn nfp_label_d15_k5() { nfp_label_k(15, 5, 5) }
#[kani::proof] #[kani::stub_verified(Layer::build_hash_from_parts)] #[kani::unwind(33)] fn nfp_label_d15_k6() { nfp_label_k(15, 6, 6) }
#[kani::proof] #[kani::stub_verified(Layer::build_hash_from_parts)] #[kani::unwind(33)] fn nfp_label_d15_k7() { nfp_label_k(15, 7, 7) }
#[kani::proof] #[kani::stub_verified(Layer::build_hash_from_parts)] #[kani::unwind(33)] fn nfp_label_d15_k8() { nfp_label_k(15, 8, 8) }
#[kani::proof] #[kani::unwind(33)] fn nb_compose_d16() { nb_compose(16) }
#[kani::proof] #[kani::unwind(33)] fn nb_panic_d16() { nb_must_panic(16) }
#[kani::proof] #[kani::stub_verified(Layer::build_hash_from_parts)] #[kani::unwind(33)] fn nfp_label_d16_k0() { nfp_label_k(16, 0, 0) }
#[kani::proof] #[kani::stub_verified(Layer::build_hash_from_parts)] #[kani::unwind(33)] fn nfp_label_d16_k1() { nfp_label_k(16, 1, 1) }
#[kani::proof] #[kani::stub_verified(Layer::build_hash_from_parts)] #[kani::unwind(33)] fn nfp_label_d16_k2() { nfp_label_k(16, 2, 2) }
#[kani::proof] #[kani::stub_verified(Layer::build_hash_from_parts)] #[kani::unwind(33)] fn nfp_label_d16_k3() { nfp_label_k(16, 3, 3) }
#[kani::proof] #[kani::stub_verified(Layer::build_hash_from_parts)] #[kani::unwind(33)] fn nfp_label_d16_k4() { nfp_label_k(16, 4, 4) }
#[kani::proof] #[kani::stub_verified(Layer::build_hash_from_parts)] #[kani::unwind(33)] fn nfp_label_d16_k5() { nfp_label_k(16, 5, 5) }
#[kani::proof] #[kani::stub_verified(Layer::build_hash_from_parts)] #[kani::unwind(33)] fn nfp_label_d16_k6() { nfp_label_k(16, 6, 6) }
#[kani::proof] #[kani::stub_verified(Layer::build_hash_from_parts)] #[kani::unwind(33)] fn nfp_label_d16_k7() { nfp_label_k(16, 7, 7) }
#[kani::proof] #[kani::stub_verified(Layer::build_hash_from_parts)] #[kani::unwind(33)] fn nfp_label_d16_k8() { nfp_label_k(16, 8, 8) }
#[kani::proof] #[kani::unwind(33)] fn nb_compose_d17() { nb_compose(17) }
#[kani::proof] #[kani::unwind(33)] fn nb_panic_d17() { nb_must_panic(17) }
#[kani::proof] #[kani::stub_verified(Layer::build_hash_from_parts)] #[kani::unwind(33)] fn nfp_label_d17_k0() { nfp_label_k(17, 0, 0) }
#[kani::proof] #[kani::stub_verified(Layer::build_hash_from_parts)] #[kani::unwind(33)] fn nfp_label_d17_k1() { nfp_label_k(17, 1, 1) }
#[kani::proof] #[kani::stub_verified(Layer::build_hash_from_parts)] #[kani::unwind(33)] fn nfp_label_d17_k2() { nfp_label_k(17, 2, 2) }
#[kani::proof] #[kani::stub_verified(Layer::build_hash_from_parts)] #[kani::unwind(33)] fn nfp_label_d17_k3() { nfp_label_k(17, 3, 3) }
#[kani::proof] #[kani::stub_verified(Layer::build_hash_from_parts)] #[kani::unwind(33)] fn nfp_label_d17_k4() { nfp_label_k(17, 4, 4) }
#[kani::proof] #[kani::stub_verified(Layer::build_hash_from_parts)] #[kani::unwind(33)] fn nfp_label_d17_k5() { nfp_label_k(17, 5, 5) }
#[kani::proof] #[kani::stub_verified(Layer::build_hash_from_parts)] #[kani::unwind(33)] fn nfp_label_d17_k6() { nfp_label_k(17, 6, 6) }
#[kani::proof] #[kani::stub_verified(Layer::build_hash_from_parts)] #[kani::unwind(33)] fn nfp_label_d17_k7() { nfp_label_k(17, 7, 7) }
#[kani::proof] #[kani::stub_verified(Layer::build_hash_from_parts)] #[kani::unwind(33)] fn nfp_label_d17_k8() { nfp_label_k(17, 8, 8) }
#[kani::proof] #[kani::unwind(33)] fn nb_compose_d18() { nb_compose(18) }
#[kani::proof] #[kani::unwind(33)] fn nb_panic_d18() { nb_must_panic(18) }
#[kani::proof] #[kani::stub_verified(Layer::build_hash_from_parts)] #[kani::unwind(33)] fn nfp_label_d18_k0() { nfp_label_k(18, 0, 0) }
#[kani::proof] #[kani::stub_verified(Layer::build_hash_from_parts)] #[kani::unwind(33)] fn nfp_label_d18_k1() { nfp_label_k(18, 1, 1) }
#[kani::proof] #[kani::stub_verified(Layer::build_hash_from_parts)] #[kani::unwind(33)] fn nfp_label_d18_k2() { nfp_label_k(18, 2, 2) }
#[kani::proof] #[kani::stub_verified(Layer::build_hash_from_parts)] #[kani::unwind(33)] fn nfp_label_d18_k3() { nfp_label_k(18, 3, 3) }
#[kani::proof] #[kani::stub_verified(Layer::build_hash_from_parts)] #[kani::unwind(33)] fn nfp_label_d18_k4() { nfp_label_k(18, 4, 4) }
#[kani::proof] #[kani::stub_verified(Layer::build_hash_from_parts)] #[kani::unwind(33)] fn nfp_label_d18_k5() { nfp_label_k(18, 5, 5) }
#[kani::proof] #[kani::stub_verified(Layer::build_hash_from_parts)] #[kani::unwind(33)] fn nfp_label_d18_k6() { nfp_label_k(18, 6, 6) }
#[kani::proof] #[kani::stub_verified(Layer::build_hash_from_parts)] #[kani::unwind(33)] fn nfp_label_d18_k7() { nfp_label_k(18, 7, 7) }
#[kani::proof] #[kani::stub_verified(Layer::build_hash_from_parts)] #[kani::unwind(33)] fn nfp_label_d18_k8() { nfp_label_k(18, 8, 8) }
#[kani::proof] #[kani::unwind(33)] fn nb_compose_d19() { nb_compose(19) }
#[kani::proof] #[kani::unwind(33)] fn nb_panic_d19() { nb_must_panic(19) }
#[kani::proof] #[kani::stub_verified(Layer::build_hash_from_parts)] #[kani::unwind(33)] fn nfp_label_d19_k0() { nfp_label_k(19, 0, 0) }
#[kani::proof] #[kani::stub_verified(Layer::build_hash_from_parts)] #[kani::unwind(33)] fn nfp_label_d19_k1() { nfp_label_k(19, 1, 1) }
#[kani::proof] #[kani::stub_verified(Layer::build_hash_from_parts)] #[kani::unwind(33)] fn nfp_label_d19_k2() { nfp_label_k(19, 2, 2) }
#[kani::proof] #[kani::stub_verified(Layer::build_hash_from_parts)] #[kani::unwind(33)] fn nfp_label_d19_k3() { nfp_label_k(19, 3, 3) }
#[kani::proof] #[kani::stub_verified(Layer::build_hash_from_parts)] #[kani::unwind(33)] fn nfp_label_d19_k4() { nfp_label_k(19, 4, 4) }
#[kani::proof] #[kani::stub_verified(Layer::build_hash_from_parts)] #[kani::unwind(33)] fn nfp_label_d19_k5() { nfp_label_k(19, 5, 5) }
#[kani::proof] #[kani::stub_verified(Layer::build_hash_from_parts)] #[kani::unwind(33)] fn nfp_label_d19_k6() { nfp_label_k(19, 6, 6) }
#[kani::proof] #[kani::stub_verified(Layer::build_hash_from_parts)] #[kani::unwind(33)] fn nfp_label_d19_k7() { nfp_label_k(19, 7, 7) }
#[kani::proof] #[kani::stub_verified(Layer::build_hash_from_parts)] #[kani::unwind(33)] fn nfp_label_d19_k8() { nfp_label_k(19, 8, 8) }
#[kani::proof] #[kani::unwind(33)] fn nb_compose_d20() { nb_compose(20) }
#[kani::proof] #[kani::unwind(33)] fn nb_panic_d20() { nb_must_panic(20) }
#[kani::proof] #[kani::stub_verified(Layer::build_hash_from_parts)] #[kani::unwind(33)] fn nfp_label_d20_k0() { nfp_label_k(20, 0, 0) }
#[kani::proof] #[kani::stub_verified(Layer::build_hash_from_parts)] #[kani::unwind(33)] fn nfp_label_d20_k1() { nfp_label_k(20, 1, 1) }
#[kani::proof] #[kani::stub_verified(Layer::build_hash_from_parts)] #[kani::unwind(33)] fn nfp_label_d20_k2() { nfp_label_k(20, 2, 2) }
#[kani::proof] #[kani::stub_verified(Layer::build_hash_from_parts)] #[kani::unwind(33)] fn nfp_label_d20_k3() { nfp_label_k(20, 3, 3) }
#[kani::proof] #[kani::stub_verified(Layer::build_hash_from_parts)] #[kani::unwind(33)] fn nfp_label_d20_k4() { nfp_label_k(20, 4, 4) }
#[kani::proof] #[kani::stub_verified(Layer::build_hash_from_parts)] #[kani::unwind(33)] fn nfp_label_d20_k5() { nfp_label_k(20, 5, 5) }
#[kani::proof] #[kani::stub_verified(Layer::build_hash_from_parts)] #[kani::unwind(33)] fn nfp_label_d20_k6() { nfp_label_k(20, 6, 6) }
#[kani::proof] #[kani::stub_verified(Layer::build_hash_from_parts)] #[kani::unwind(33)] fn nfp_label_d20_k7() { nfp_label_k(20, 7, 7) }
#[kani::proof] #[kani::stub_verified(Layer::build_hash_from_parts)] #[kani::unwind(33)] fn nfp_label_d20_k8() { nfp_label_k(20, 8, 8) }
#[kani::proof] #[kani::unwind(33)] fn nb_compose_d21() { nb_compose(21) }
#[kani::proof] #[kani::unwind(33)] fn nb_panic_d21() { nb_must_panic(21) }
#[kani::proof] #[kani::stub_verified(Layer::build_hash_from_parts)] #[kani::unwind(33)] fn nfp_label_d21_k0() { nfp_label_k(21, 0, 0) }
#[kani::proof] #[kani::stub_verified(Layer::build_hash_from_parts)] #[kani::unwind(33)] fn nfp_label_d21_k1() { nfp_label_k(21, 1, 1) }
#[kani::proof] #[kani::stub_verified(Layer::build_hash_from_parts)] #[kani::unwind(33)] fn nfp_label_d21_k2() { nfp_label_k(21, 2, 2) }
#[kani::proof] #[kani::stub_verified(Layer::build_hash_from_parts)] #[kani::unwind(33)] fn nfp_label_d21_k3() { nfp_label_k(21, 3, 3) }
#[kani::proof] #[kani::stub_verified(Layer::build_hash_from_parts)] #[kani::unwind(33)] fn nfp_label_d21_k4() { nfp_label_k(21, 4, 4) }
#[kani::proof] #[kani::stub_verified(Layer::build_hash_from_parts)] #[kani::unwind(33)] fn nfp_label_d21_k5() { nfp_label_k(21, 5, 5) }
#[kani::proof] #[kani::stub_verified(Layer::build_hash_from_parts)] #[kani::unwind(33)] fn nfp_label_d21_k6() { nfp_label_k(21, 6, 6) }
#[kani::proof] #[kani::stub_verified(Layer::build_hash_from_parts)] #[kani::unwind(33)] fn nfp_label_d21_k7() { nfp_label_k(21, 7, 7) }
#[kani::proof] #[kani::stub_verified(Layer::build_hash_from_parts)] #[kani::unwind(33)] fn nfp_label_d21_k8() { nfp_label_k(21, 8, 8) }
#[kani::proof] #[kani::unwind(33)] fn nb_compose_d22() { nb_compose(22) }
#[kani::proof] #[kani::unwind(33)] fn nb_panic_d22() { nb_must_panic(22) }
#[kani::proof] #[kani::stub_verified(Layer::build_hash_from_parts)] #[kani::unwind(33)] fn nfp_label_d22_k0() { nfp_label_k(22, 0, 0) }
#[kani::proof] #[kani::stub_verified(Layer::build_hash_from_parts)] #[kani::unwind(33)] fn nfp_label_d22_k1() { nfp_label_k(22, 1, 1) }
#[kani::proof] #[kani::stub_verified(Layer::build_hash_from_parts)] #[kani::unwind(33)] fn nfp_label_d22_k2() { nfp_label_k(22, 2, 2) }
#[kani::proof] #[kani::stub_verified(Layer::build_hash_from_parts)] #[kani::unwind(33)] fn nfp_label_d22_k3() { nfp_label_k(22, 3, 3) }
#[kani::proof] #[kani::stub_verified(Layer::build_hash_from_parts)] #[kani::unwind(33)] fn nfp_label_d22_k4() { nfp_label_k(22, 4, 4) }
#[kani::proof] #[kani::stub_verified(Layer::build_hash_from_parts)] #[kani::unwind(33)] fn nfp_label_d22_k5() { nfp_label_k(22, 5, 5) }
#[kani::proof] #[kani::stub_verified(Layer::build_hash_from_parts)] #[kani::unwind(33)] fn nfp_label_d22_k6() { nfp_label_k(22, 6, 6) }
#[kani::proof] #[kani::stub_verified(Layer::build_hash_from_parts)] #[kani::unwind(33)] fn nfp_label_d22_k7() { nfp_label_k(22, 7, 7) }
#[kani::proof] #[kani::stub_verified(Layer::build_hash_from_parts)] #[kani::unwind(33)] fn nfp_label_d22_k8() { nfp_label_k(22, 8, 8) }
#[kani::proof] #[kani::unwind(33)] fn nb_compose_d23() { nb_compose(23) }
#[kani::proof] #[kani::unwind(33)] fn nb_panic_d23() { nb_must_panic(23) }
#[kani::proof] #[kani::stub_verified(Layer::build_hash_from_parts)] #[kani::unwind(33)] fn nfp_label_d23_k0() { nfp_label_k(23, 0, 0) }
#[kani::proof] #[kani::stub_verified(Layer::build_hash_from_parts)] #[kani::unwind(33)] fn nfp_label_d23_k1() { nfp_label_k(23, 1, 1) }
#[kani::proof] #[kani::stub_verified(Layer::build_hash_from_parts)] #[kani::unwind(33)] fn nfp_label_d23_k2() { nfp_label_k(23, 2, 2) }
#[kani::proof] #[kani::stub_verified(Layer::build_hash_from_parts)] #[kani::unwind(33)] fn nfp_label_d23_k3() { nfp_label_k(23, 3, 3) }
#[kani::proof] #[kani::stub_verified(Layer::build_hash_from_parts)] #[kani::unwind(33)] fn nfp_label_d23_k4() { nfp_label_k(23, 4, 4) }
#[kani::proof] #[kani::stub_verified(Layer::build_hash_from_parts)] #[kani::unwind(33)] fn nfp_label_d23_k5() { nfp_label_k(23, 5, 5) }
#[kani::proof] #[kani::stub_verified(Layer::build_hash_from_parts)] #[kani::unwind(33)] fn nfp_label_d23_k6() { nfp_label_k(23, 6, 6) }
#[kani::proof] #[kani::stub_verified(Layer::build_hash_from_parts)] #[kani::unwind(33)] fn nfp_label_d23_k7() { nfp_label_k(23, 7, 7) }
#[kani::proof] #[kani::stub_verified(Layer::build_hash_from_parts)] #[kani::unwind(33)] fn nfp_label_d23_k8() { nfp_label_k(23, 8, 8) }
#[kani::proof] #[kani::unwind(33)] fn nb_compose_d24() { nb_compose(24) }
#[kani::proof] #[kani::unwind(33)] fn nb_panic_d24() { nb_must_panic(24) }
#[kani::proof] #[kani::stub_verified(Layer::build_hash_from_parts)] #[kani::unwind(33)] fn nfp_label_d24_k0() { nfp_label_k(24, 0, 0) }
#[kani::proof] #[kani::stub_verified(Layer::build_hash_from_parts)] #[kani::unwind(33)] fn nfp_label_d24_k1() { nfp_label_k(24, 1, 1) }
#[kani::proof] #[kani::stub_verified(Layer::build_hash_from_parts)] #[kani::unwind(33)] fn nfp_label_d24_k2() { nfp_label_k(24, 2, 2) }
#[kani::proof] #[kani::stub_verified(Layer::build_hash_from_parts)] #[kani::unwind(33)] fn nfp_label_d24_k3() { nfp_label_k(24, 3, 3) }
#[kani::proof] #[kani::stub_verified(Layer::build_hash_from_parts)] #[kani::unwind(33)] fn nfp_label_d24_k4() { nfp_label_k(24, 4, 4) }
#[kani::proof] #[kani::stub_verified(Layer::build_hash_from_parts)] #[kani::unwind(33)] fn nfp_label_d24_k5() { nfp_label_k(24, 5, 5) }
#[kani::proof] #[kani::stub_verified(Layer::build_hash_from_parts)] #[kani::unwind(33)] fn nfp_label_d24_k6() { nfp_label_k(24, 6, 6) }
#[kani::proof] #[kani::stub_verified(Layer::build_hash_from_parts)] #[kani::unwind(33)] fn nfp_label_d24_k7() { nfp_label_k(24, 7, 7) }
#[kani::proof] #[kani::stub_verified(Layer::build_hash_from_parts)] #[kani::unwind(33)] fn nfp_label_d24_k8() { nfp_label_k(24, 8, 8) }
#[kani::proof] #[kani::unwind(33)] fn nb_compose_d25() { nb_compose(25) }
#[kani::proof] #[kani::unwind(33)] fn nb_panic_d25() { nb_must_panic(25) }
#[kani::proof] #[kani::stub_verified(Layer::build_hash_from_parts)] #[kani::unwind(33)] fn nfp_label_d25_k0() { nfp_label_k(25, 0, 0) }
#[kani::proof] #[kani::stub_verified(Layer::build_hash_from_parts)] #[kani::unwind(33)] fn nfp_label_d25_k1() { nfp_label_k(25, 1, 1) }
#[kani::proof] #[kani::stub_verified(Layer::build_hash_from_parts)] #[kani::unwind(33)] fn nfp_label_d25_k2() { nfp_label_k(25, 2, 2) }
#[kani::proof] #[kani::stub_verified(Layer::build_hash_from_parts)] #[kani::unwind(33)] fn nfp_label_d25_k3() { nfp_label_k(25, 3, 3) }
#[kani::proof] #[kani::stub_verified(Layer::build_hash_from_parts)] #[kani::unwind(33)] fn nfp_label_d25_k4() { nfp_label_k(25, 4, 4) }
#[kani::proof] #[kani::stub_verified(Layer::build_hash_from_parts)] #[kani::unwind(33)] fn nfp_label_d25_k5() { nfp_label_k(25, 5, 5) }
#[kani::proof] #[kani::stub_verified(Layer::build_hash_from_parts)] #[kani::unwind(33)] fn nfp_label_d25_k6() { nfp_label_k(25, 6, 6) }
#[kani::proof] #[kani::stub_verified(Layer::build_hash_from_parts)] #[kani::unwind(33)] fn nfp_label_d25_k7() { nfp_label_k(25, 7, 7) }
#[kani::proof] #[kani::stub_verified(Layer::build_hash_from_parts)] #[kani::unwind(33)] fn nfp_label_d25_k8() { nfp_label_k(25, 8, 8) }
#[kani::proof] #[kani::unwind(33)] fn nb_compose_d26() { nb_compose(26) }
#[kani::proof] #[kani::unwind(33)] fn nb_panic_d26() { nb_must_panic(26) }
#[kani::proof] #[kani::stub_verified(Layer::build_hash_from_parts)] #[kani::unwind(33)] fn nfp_label_d26_k0() { nfp_label_k(26, 0, 0) }
#[kani::proof] #[kani::stub_verified(Layer::build_hash_from_parts)] #[kani::unwind(33)] fn nfp_label_d26_k1() { nfp_label_k(26, 1, 1) }
#[kani::proof] #[kani::stub_verified(Layer::build_hash_from_parts)] #[kani::unwind(33)] fn nfp_label_d26_k2() { nfp_label_k(26, 2, 2) }
#[kani::proof] #[kani::stub_verified(Layer::build_hash_from_parts)] #[kani::unwind(33)] fn nfp_label_d26_k3() { nfp_label_k(26, 3, 3) }
#[kani::proof] #[kani::stub_verified(Layer::build_hash_from_parts)] #[kani::unwind(33)] fn nfp_label_d26_k4() { nfp_label_k(26, 4, 4) }
#[kani::proof] #[kani::stub_verified(Layer::build_hash_from_parts)] #[kani::unwind(33)] fn nfp_label_d26_k5() { nfp_label_k(26, 5, 5) }
#[kani::proof] #[kani::stub_verified(Layer::build_hash_from_parts)] #[kani::unwind(33)] fn nfp_label_d26_k6() { nfp_label_k(26, 6, 6) }
#[kani::proof] #[kani::stub_verified(Layer::build_hash_from_parts)] #[kani::unwind(33)] fn nfp_label_d26_k7() { nfp_label_k(26, 7, 7) }
#[kani::proof] #[kani::stub_verified(Layer::build_hash_from_parts)] #[kani::unwind(33)] fn nfp_label_d26_k8() { nfp_label_k(26, 8, 8) }
#[kani::proof] #[kani::unwind(33)] fn nb_compose_d27() { nb_compose(27) }
#[kani::proof] #[kani::unwind(33)] fn nb_panic_d27() { nb_must_panic(27) }
#[kani::proof] #[kani::stub_verified(Layer::build_hash_from_parts)] #[kani::unwind(33)] fn nfp_label_d27_k0() { nfp_label_k(27, 0, 0) }
#[kani::proof] #[kani::stub_verified(Layer::build_hash_from_parts)] #[kani::unwind(33)] fn nfp_label_d27_k1() { nfp_label_k(27, 1, 1) }
#[kani::proof] #[kani::stub_verified(Layer::build_hash_from_parts)] #[kani::unwind(33)] fn nfp_label_d27_k2() { nfp_label_k(27, 2, 2) }
#[kani::proof] #[kani::stub_verified(Layer::build_hash_from_parts)] #[kani::unwind(33)] fn nfp_label_d27_k3() { nfp_label_k(27, 3, 3) }
#[kani::proof] #[kani::stub_verified(Layer::build_hash_from_parts)] #[kani::unwind(33)] fn nfp_label_d27_k4() { nfp_label_k(27, 4, 4) }
#[kani::proof] #[kani::stub_verified(Layer::build_hash_from_parts)] #[kani::unwind(33)] fn nfp_label_d27_k5() { nfp_label_k(27, 5, 5) }
#[kani::proof] #[kani::stub_verified(Layer::build_hash_from_parts)] #[kani::unwind(33)] fn nfp_label_d27_k6() { nfp_label_k(27, 6, 6) }
#[kani::proof] #[kani::stub_verified(Layer::build_hash_from_parts)] #[kani::unwind(33)] fn nfp_label_d27_k7() { nfp_label_k(27, 7, 7) }
#[kani::proof] #[kani::stub_verified(Layer::build_hash_from_parts)] #[kani::unwind(33)] fn nfp_label_d27_k8() { nfp_label_k(27, 8, 8) }
#[kani::proof] #[kani::unwind(33)] fn nb_compose_d28() { nb_compose(28) }
#[kani::proof] #[kani::unwind(33)] fn nb_panic_d28() { nb_must_panic(28) }
#[kani::proof] #[kani::stub_verified(Layer::build_hash_from_parts)] #[kani::unwind(33)] fn nfp_label_d28_k0() { nfp_label_k(28, 0, 0) }
#[kani::proof] #[kani::stub_verified(Layer::build_hash_from_parts)] #[kani::unwind(33)] fn nfp_label_d28_k1() { nfp_label_k(28, 1, 1) }
#[kani::proof] #[kani::stub_verified(Layer::build_hash_from_parts)] #[kani::unwind(33)] fn nfp_label_d28_k2() { nfp_label_k(28, 2, 2) }
#[kani::proof] #[kani::stub_verified(Layer::build_hash_from_parts)] #[kani::unwind(33)] fn nfp_label_d28_k3() { nfp_label_k(28, 3, 3) }
#[kani::proof] #[kani::stub_verified(Layer::build_hash_from_parts)] #[kani::unwind(33)] fn nfp_label_d28_k4() { nfp_label_k(28, 4, 4) }
#[kani::proof] #[kani::stub_verified(Layer::build_hash_from_parts)] #[kani::unwind(33)] fn nfp_label_d28_k5() { nfp_label_k(28, 5, 5) }
#[kani::proof] #[kani::stub_verified(Layer::build_hash_from_parts)] #[kani::unwind(33)] fn nfp_label_d28_k6() { nfp_label_k(28, 6, 6) }
#[kani::proof] #[kani::stub_verified(Layer::build_hash_from_parts)] #[kani::unwind(33)] fn nfp_label_d28_k7() { nfp_label_k(28, 7, 7) }
#[kani::proof] #[kani::stub_verified(Layer::build_hash_from_parts)] #[kani::unwind(33)] fn nfp_label_d28_k8() { nfp_label_k(28, 8, 8) }
#[kani::proof] #[kani::unwind(33)] fn nb_compose_d29() { nb_compose(29) }
#[kani::proof] #[kani::unwind(33)] fn nb_panic_d29() { nb_must_panic(29) }
#[kani::proof] #[kani::stub_verified(Layer::build_hash_from_parts)] #[kani::unwind(33)] fn nfp_label_d29_k0() { nfp_label_k(29, 0, 0) }
#[kani::proof] #[kani::stub_verified(Layer::build_hash_from_parts)] #[kani::unwind(33)] fn nfp_label_d29_k1() { nfp_label_k(29, 1, 1) }
#[kani::proof] #[kani::stub_verified(Layer::build_hash_from_parts)] #[kani::unwind(33)] fn nfp_label_d29_k2() { nfp_label_k(29, 2, 2) }
#[kani::proof] #[kani::stub_verified(Layer::build_hash_from_parts)] #[kani::unwind(33)] fn nfp_label_d29_k3() { nfp_label_k(29, 3, 3) }
#[kani::proof] #[kani::stub_verified(Layer::build_hash_from_parts)] #[kani::unwind(33)] fn nfp_label_d29_k4() { nfp_label_k(29, 4, 4) }
#[kani::proof] #[kani::stub_verified(Layer::build_hash_from_parts)] #[kani::unwind(33)] fn nfp_label_d29_k5() { nfp_label_k(29, 5, 5) }
#[kani::proof] #[kani::stub_verified(Layer::build_hash_from_parts)] #[kani::unwind(33)] fn nfp_label_d29_k6() { nfp_label_k(29, 6, 6) }
#[kani::proof] #[kani::stub_verified(Layer::build_hash_from_parts)] #[kani::unwind(33)] fn nfp_label_d29_k7() { nfp_label_k(29, 7, 7) }
#[kani::proof] #[kani::stub_verified(Layer::build_hash_from_parts)] #[kani::unwind(33)] fn nfp_label_d29_k8() { nfp_label_k(29, 8, 8) }
#[kani::proof] #[kani::unwind(33)] fn nb_canary_d00() { nb_canary(0) }
#[kani::proof] #[kani::unwind(33)] fn nb_canary_d03() { nb_canary(3) }
#[kani::proof] #[kani::unwind(33)] fn nb_canary_d29() { nb_canary(29) }
