//! C10 — NESTED <-> RING. Child module of src/nested/mod.rs.
use super::*;
use crate::verif_spec as sp;

/// Sort key of a cell in the RING order, from the integer geometry of the projection plane:
/// (ring counted from the north = (2n-1) - Yc, x of the centre reduced to [0, 8n)).
fn ring_key(d: u8, h: u64) -> (i64, i64) {
  let n = 1i64 << d;
  let (b, i, j) = sp::decode(d, h);
  let (xc, yc) = sp::cell_center(n, b, i, j);
  let mut x = xc;
  if x < 0 { x += 8 * n; }
  ((2 * n - 1) - yc, x)
}
fn key_lt(a: (i64, i64), b: (i64, i64)) -> bool { a.0 < b.0 || (a.0 == b.0 && a.1 < b.1) }

/// to_ring is an order isomorphism from (cells, RING order of their centres) to [0, 12*4^d):
/// in range, and for two arbitrary cells: to_ring(h1) < to_ring(h2) <=> centre(h1) before centre(h2)
/// (more northern ring, or same ring and smaller x in [0,8)). Hence injective, hence bijective.
fn to_ring_order_iso(d: u8) {
  let l = Layer::new(d);
  let h1: u64 = kani::any(); let h2: u64 = kani::any();
  kani::assume(h1 < sp::n_hash(d) && h2 < sp::n_hash(d));
  let r1 = l.to_ring(h1); let r2 = l.to_ring(h2);
  assert!(r1 < sp::n_hash(d) && r2 < sp::n_hash(d), "C10 to_ring in [0, 12*4^depth)");
  let k1 = ring_key(d, h1); let k2 = ring_key(d, h2);
  assert!((r1 < r2) == key_lt(k1, k2), "C10 RING order == (latitude ring from the north, then x in [0,8)) of the cell centres");
  assert!((r1 == r2) == (h1 == h2), "C10 to_ring injective");
  kani::cover!(k1.0 == k2.0 && h1 != h2, "two cells of the same ring");
  kani::cover!(d == 0 || (k1.0 < (1i64 << d) - 1 && k2.0 > 3 * (1i64 << d) - 1), "north cap vs south cap");
  kani::cover!(sp::decode(d, h1).0 == 4 && sp::cell_center(1i64 << d, 4, sp::decode(d, h1).1, sp::decode(d, h1).2).0 < 0 || d == 0, "base cell 4, west half (x wraps)");
}

/// from_ring inverts to_ring on every cell (with injectivity + range: mutual inverse bijections)
fn ring_round_trip(d: u8) {
  let l = Layer::new(d);
  let h: u64 = kani::any();
  kani::assume(h < sp::n_hash(d));
  let r = l.to_ring(h);
  assert!(l.from_ring(r) == h, "C10 from_ring(to_ring(h)) == h");
  kani::cover!(sp::decode(d, h).0 < 4, "north cap"); kani::cover!(sp::decode(d, h).0 >= 8, "south cap");
}

/// ring-scheme centre of cell r == nested centre of from_ring(r), exactly (same doubles)
fn ring_center_agrees(d: u8) {
  let l = Layer::new(d);
  let r: u64 = kani::any();
  kani::assume(r < sp::n_hash(d));
  let h = l.from_ring(r);
  assert!(h < sp::n_hash(d), "C10 from_ring in range");
  let (x1, y1) = crate::ring::center_of_projected_cell(1u32 << d, r);
  let (x2, y2) = l.center_of_projected_cell(h);
  assert!(x1 == x2 && y1 == y2, "C10 RING centre of r == NESTED centre of from_ring(r)");
}

fn ring_canary(d: u8) {
  let l = Layer::new(d);
  let h1: u64 = kani::any(); let h2: u64 = kani::any();
  kani::assume(h1 < sp::n_hash(d) && h2 < sp::n_hash(d));
  let k1 = ring_key(d, h1); let k2 = ring_key(d, h2);
  assert!((l.to_ring(h1) < l.to_ring(h2)) == (k1.0 < k2.0), "CANARY order by ring only must be refuted");
}

/// CONTRACT of ring::polar_cap_ring_index (the repaired float-sqrt step), for every index that can
/// occur (h < 2^62): tn(r) <= h < tn(r+1) with tn(k) = 2k(k+1) -- i.e. r is THE ring containing h.
fn tn(k: u64) -> u64 { (k.wrapping_mul(k.wrapping_add(1))) << 1 }
fn pcri_contract(lo: u64, hi: u64) {
  let h: u64 = kani::any();
  kani::assume(lo <= h && h < hi);
  let r = crate::ring::polar_cap_ring_index(h);
  assert!(r < (1u64 << 31), "ring index fits");
  assert!(tn(r) <= h && h < tn(r + 1), "C10/C11 polar_cap_ring_index(h) is the ring containing h: 2r(r+1) <= h < 2(r+1)(r+2)");
}
#[kani::proof] fn pcri_contract_lt_2p10() { pcri_contract(0, 1 << 10) }
#[kani::proof] fn pcri_contract_2p10_2p20() { pcri_contract(1 << 10, 1 << 20) }
#[kani::proof] fn pcri_contract_2p20_2p40() { pcri_contract(1 << 20, 1 << 40) }
#[kani::proof] fn pcri_contract_2p40_2p53() { pcri_contract(1 << 40, 1 << 53) }
#[kani::proof] fn pcri_contract_2p53_2p62() { pcri_contract(1 << 53, 1 << 62) }

macro_rules! per_depth {
  ($($d:literal => $a:ident, $b:ident, $c:ident);* $(;)?) => { $(
    #[kani::proof] #[kani::unwind(33)] fn $a() { to_ring_order_iso($d) }
    #[kani::proof] #[kani::unwind(33)] fn $b() { ring_round_trip($d) }
    #[kani::proof] #[kani::unwind(33)] fn $c() { ring_center_agrees($d) }
  )* }
}
per_depth! {
  0 => ring_iso_d00, ring_rt_d00, ring_ctr_d00; 1 => ring_iso_d01, ring_rt_d01, ring_ctr_d01;
  2 => ring_iso_d02, ring_rt_d02, ring_ctr_d02; 3 => ring_iso_d03, ring_rt_d03, ring_ctr_d03;
  4 => ring_iso_d04, ring_rt_d04, ring_ctr_d04; 5 => ring_iso_d05, ring_rt_d05, ring_ctr_d05;
  6 => ring_iso_d06, ring_rt_d06, ring_ctr_d06; 7 => ring_iso_d07, ring_rt_d07, ring_ctr_d07;
  8 => ring_iso_d08, ring_rt_d08, ring_ctr_d08; 9 => ring_iso_d09, ring_rt_d09, ring_ctr_d09;
  10 => ring_iso_d10, ring_rt_d10, ring_ctr_d10; 11 => ring_iso_d11, ring_rt_d11, ring_ctr_d11;
  12 => ring_iso_d12, ring_rt_d12, ring_ctr_d12; 13 => ring_iso_d13, ring_rt_d13, ring_ctr_d13;
  14 => ring_iso_d14, ring_rt_d14, ring_ctr_d14; 15 => ring_iso_d15, ring_rt_d15, ring_ctr_d15;
  16 => ring_iso_d16, ring_rt_d16, ring_ctr_d16; 17 => ring_iso_d17, ring_rt_d17, ring_ctr_d17;
  18 => ring_iso_d18, ring_rt_d18, ring_ctr_d18; 19 => ring_iso_d19, ring_rt_d19, ring_ctr_d19;
  20 => ring_iso_d20, ring_rt_d20, ring_ctr_d20; 21 => ring_iso_d21, ring_rt_d21, ring_ctr_d21;
  22 => ring_iso_d22, ring_rt_d22, ring_ctr_d22; 23 => ring_iso_d23, ring_rt_d23, ring_ctr_d23;
  24 => ring_iso_d24, ring_rt_d24, ring_ctr_d24; 25 => ring_iso_d25, ring_rt_d25, ring_ctr_d25;
  26 => ring_iso_d26, ring_rt_d26, ring_ctr_d26; 27 => ring_iso_d27, ring_rt_d27, ring_ctr_d27;
  28 => ring_iso_d28, ring_rt_d28, ring_ctr_d28; 29 => ring_iso_d29, ring_rt_d29, ring_ctr_d29;
}
#[kani::proof] #[kani::unwind(33)] fn ring_canary_d02() { ring_canary(2) }

/// Link between the two back ends: `Layer::new` establishes, for every depth 0..=29, the well-formedness predicate `wf()` that
/// the Verus contracts of to_ring / from_ring (contracts/verus_ring.py) take as a precondition on the reduced `Layer`.
#[kani::proof]
fn layer_new_wf() {
  let d: u8 = kani::any();
  kani::assume(d <= 29);
  let l = Layer::new(d);
  assert!(l.depth == d, "C10 wf: depth");
  assert!(l.nside as u64 == 1u64 << d, "C10 wf: nside == 2^depth");
  assert!(l.n_hash == 12u64 << (2 * d), "C10 wf: n_hash == 12 * 4^depth");
  assert!(l.nside_remainder_mask == (1u64 << d) - 1, "C10 wf: nside_remainder_mask == nside - 1");
  kani::cover!(d == 0, "depth 0");
  kani::cover!(d == 29, "depth 29");
}
