//! C18 — z-order curve implementations vs the bit-interleave definition.
//! Child module of src/nested/zordercurve.rs (sees the private types and statics).
use super::*;
use crate::verif_spec::*;

// ---- every class selectable by get_zoc, through the real dispatch (trait object) -------------

#[kani::proof]
#[kani::unwind(33)]
fn zoc_empty_d0() {
  // depth 0: nside = 1, the only coordinates are (0, 0)
  let z = get_zoc(0);
  assert!(z.ij2h(0, 0) == interleave(0, 0));
  assert!(z.i02h(0) == 0 && z.oj2h(0) == 0);
  let ij = z.h2ij(0);
  assert!(z.ij2i(ij) == 0 && z.ij2j(ij) == 0);
}

#[kani::proof]
#[kani::unwind(33)]
fn zoc_small_encode() {
  let d: u8 = kani::any();
  kani::assume(1 <= d && d <= 8);
  let z = get_zoc(d);
  let i: u32 = kani::any();
  let j: u32 = kani::any();
  kani::assume(i < 256 && j < 256); // all coordinates below 2^8 >= 2^d
  kani::cover!(i == 255 && j == 255 && d == 8, "largest coordinates of the class");
  kani::cover!(d == 1, "smallest depth of the class");
  let h = z.ij2h(i, j);
  assert!(h == interleave(i, j), "C18 ij2h == interleave (small class)");
  assert!(z.i02h(i) == interleave(i, 0), "C18 i02h(i) == ij2h(i,0)");
  assert!(z.oj2h(j) == interleave(0, j), "C18 oj2h(j) == ij2h(0,j)");
  assert!(z.i02h(i) == z.ij2h(i, 0) && z.oj2h(j) == z.ij2h(0, j));
}

#[kani::proof]
#[kani::unwind(33)]
fn zoc_small_decode() {
  let d: u8 = kani::any();
  kani::assume(1 <= d && d <= 8);
  let z = get_zoc(d);
  let h: u64 = kani::any();
  kani::assume(h < (1u64 << 16)); // every hash-in-base-cell of depth <= 8
  kani::cover!(h == 0xFFFF);
  let ij = z.h2ij(h);
  assert!(z.ij2i(ij) == even_bits(h), "C18 ij2i(h2ij(h)) == even bits");
  assert!(z.ij2j(ij) == odd_bits(h), "C18 ij2j(h2ij(h)) == odd bits");
  assert!(z.ij2h(z.ij2i(ij), z.ij2j(ij)) == h, "C18 h2ij inverts ij2h (small class)");
}

#[kani::proof]
#[kani::unwind(33)]
fn zoc_mediu_encode() {
  let d: u8 = kani::any();
  kani::assume(9 <= d && d <= 16);
  let z = get_zoc(d);
  let i: u32 = kani::any();
  let j: u32 = kani::any();
  kani::assume(i < 65536 && j < 65536);
  kani::cover!(i == 65535 && j == 65535 && d == 16);
  kani::cover!(i > 255 && j > 255 && d == 9);
  let h = z.ij2h(i, j);
  assert!(h == interleave(i, j), "C18 ij2h == interleave (medium class)");
  assert!(z.i02h(i) == interleave(i, 0), "C18 i02h(i) == ij2h(i,0)");
  assert!(z.oj2h(j) == interleave(0, j), "C18 oj2h(j) == ij2h(0,j)");
  assert!(z.i02h(i) == z.ij2h(i, 0) && z.oj2h(j) == z.ij2h(0, j));
}

#[kani::proof]
#[kani::unwind(33)]
fn zoc_mediu_decode() {
  let d: u8 = kani::any();
  kani::assume(9 <= d && d <= 16);
  let z = get_zoc(d);
  let h: u64 = kani::any();
  kani::assume(h < (1u64 << 32));
  kani::cover!(h == 0xFFFF_FFFF);
  let ij = z.h2ij(h);
  assert!(z.ij2i(ij) == even_bits(h), "C18 ij2i(h2ij(h)) == even bits");
  assert!(z.ij2j(ij) == odd_bits(h), "C18 ij2j(h2ij(h)) == odd bits");
  assert!(z.ij2h(z.ij2i(ij), z.ij2j(ij)) == h, "C18 h2ij inverts ij2h (medium class)");
}

#[kani::proof]
#[kani::unwind(33)]
fn zoc_large_encode() {
  let d: u8 = kani::any();
  kani::assume(17 <= d && d <= 29);
  let z = get_zoc(d);
  let i: u32 = kani::any();
  let j: u32 = kani::any(); // the whole u32 x u32 domain (superset of < 2^29)
  kani::cover!(i == u32::MAX && j == u32::MAX);
  kani::cover!(d == 17 && i > 65535);
  kani::cover!(d == 29);
  let h = z.ij2h(i, j);
  assert!(h == interleave(i, j), "C18 ij2h == interleave (large class)");
  assert!(z.i02h(i) == interleave(i, 0), "C18 i02h(i) == ij2h(i,0)");
  assert!(z.oj2h(j) == interleave(0, j), "C18 oj2h(j) == ij2h(0,j)");
  assert!(z.i02h(i) == z.ij2h(i, 0) && z.oj2h(j) == z.ij2h(0, j));
}

#[kani::proof]
#[kani::unwind(33)]
fn zoc_large_decode() {
  let d: u8 = kani::any();
  kani::assume(17 <= d && d <= 29);
  let z = get_zoc(d);
  let h: u64 = kani::any(); // the whole u64 domain
  kani::cover!(h == u64::MAX);
  let ij = z.h2ij(h);
  assert!(z.ij2i(ij) == even_bits(h), "C18 ij2i(h2ij(h)) == even bits");
  assert!(z.ij2j(ij) == odd_bits(h), "C18 ij2j(h2ij(h)) == odd bits");
  assert!(z.ij2h(z.ij2i(ij), z.ij2j(ij)) == h, "C18 h2ij inverts ij2h (large class)");
}

/// The public xor (magic-number) implementation agrees with the LUT one on all inputs.
#[kani::proof]
#[kani::unwind(33)]
fn zoc_large_xor_agrees() {
  let i: u32 = kani::any();
  let j: u32 = kani::any();
  let h: u64 = kani::any();
  assert!(LARGE_ZOC_XOR.ij2h(i, j) == LARGE_ZOC_LUT.ij2h(i, j), "C18 xor ij2h == lut ij2h");
  assert!(LARGE_ZOC_XOR.ij2h(i, j) == interleave(i, j), "C18 xor ij2h == interleave");
  assert!(LARGE_ZOC_XOR.i02h(i) == LARGE_ZOC_LUT.i02h(i), "C18 xor i02h == lut i02h");
  assert!(LARGE_ZOC_XOR.oj2h(j) == LARGE_ZOC_LUT.oj2h(j), "C18 xor oj2h == lut oj2h");
  assert!(LARGE_ZOC_XOR.h2ij(h) == LARGE_ZOC_LUT.h2ij(h), "C18 xor h2ij == lut h2ij");
  let ij = LARGE_ZOC_XOR.h2ij(h);
  assert!(LARGE_ZOC_XOR.ij2i(ij) == even_bits(h) && LARGE_ZOC_XOR.ij2j(ij) == odd_bits(h));
  assert!(LARGE_ZOC_XOR.h2i0(h & 0x5555555555555555) == even_bits(h) as u64, "C18 xor h2i0");
}

/// Direct (non-dispatched) check that the three LUT types agree with each other on the common
/// domain: a depth-8 coordinate pair gives the same hash whichever class encodes it.
#[kani::proof]
#[kani::unwind(33)]
fn zoc_classes_agree() {
  let i: u32 = kani::any();
  let j: u32 = kani::any();
  kani::assume(i < 256 && j < 256);
  let a = SMALL_ZOC_LUT.ij2h(i, j);
  assert!(a == MEDIU_ZOC_LUT.ij2h(i, j) && a == LARGE_ZOC_LUT.ij2h(i, j), "C18 classes agree");
  let i2: u32 = kani::any();
  let j2: u32 = kani::any();
  kani::assume(i2 < 65536 && j2 < 65536);
  assert!(MEDIU_ZOC_LUT.ij2h(i2, j2) == LARGE_ZOC_LUT.ij2h(i2, j2), "C18 classes agree");
}

#[kani::proof]
#[kani::unwind(33)]
fn zoc_canary() {
  let d: u8 = kani::any();
  kani::assume(17 <= d && d <= 29);
  let z = get_zoc(d);
  let i: u32 = kani::any();
  let j: u32 = kani::any();
  assert!(z.ij2h(i, j) == interleave(j, i), "CANARY swapped coordinates must be refuted");
}

#[kani::proof]
fn zoc_depth_must_panic() {
  let d: u8 = kani::any();
  kani::assume(d > 29);
  let _z = get_zoc(d);
  assert!(false, "MUST_PANIC get_zoc accepted a depth > 29");
}
