//! C03 / C19 — geometry accessors and bilinear interpolation. Child module of src/nested/mod.rs.
#![allow(static_mut_refs)]
use super::*;
use crate::verif_spec as sp;
use crate::compass_point::MainWind;

/// center_of_projected_cell(h) == integer geometry of the cell, exactly (power-of-two scaling is
/// exact): x = Xc/n reduced to [0,8), y = Yc/n in [-2,2]; all cells of the depth.
fn check_center(d: u8) {
  let l = Layer::new(d);
  let h: u64 = kani::any();
  kani::assume(h < sp::n_hash(d));
  let (x, y) = l.center_of_projected_cell(h);
  let n = 1i64 << d;
  let (b, i, j) = sp::decode(d, h);
  let (xc, yc) = sp::cell_center(n, b, i, j);
  let xc = if xc < 0 { xc + 8 * n } else { xc };
  let inv = 1.0 / (n as f64);
  assert!(x == (xc as f64) * inv && y == (yc as f64) * inv, "C03 projected centre == integer geometry of the cell, exactly");
  assert!(x >= 0.0 && x < 8.0 && y >= -2.0 && y <= 2.0, "C03 centre in [0,8) x [-2,2]");
  kani::cover!(d == 0 || (b == 4 && i < j), "west half of base cell 4 (x wraps by +8)");
}
fn check_center_panic(d: u8) {
  let l = Layer::new(d);
  let h: u64 = kani::any();
  kani::assume(h >= sp::n_hash(d));
  let _ = l.center_of_projected_cell(h); // first statement of center, sph_coo, vertex, vertices, vertices_map, path_*, grid
  assert!(false, "MUST_PANIC accessor accepted a cell number >= 12*4^depth");
}

// ---- hash_with_dxdy: proj replaced by its contract (a point of the projected domain) -----------
static mut G_X: f64 = 0.0;
static mut G_Y: f64 = 0.0;
fn ghost_proj(_lon: f64, _lat: f64) -> (f64, f64) { unsafe { (G_X, G_Y) } }
fn choose_point() -> (f64, f64) {
  // a point of the HEALPix net with x in [0, 8): equatorial band or inside a polar gore
  let x: f64 = kani::any(); let y: f64 = kani::any();
  kani::assume(x >= 0.0 && x < 8.0 && y >= -2.0 && y <= 2.0);
  if y > 1.0 || y < -1.0 {
    let q = (x * 0.5) as u8;
    let apex = (2 * (q & 3) + 1) as f64;
    kani::assume((x - apex).abs() <= 2.0 - y.abs());
  }
  unsafe { G_X = x; G_Y = y; }
  (x, y)
}
/// CONTRACT of shift_rotate_scale (first step of hash_with_dxdy): for every point of the net, the two
/// outputs are the rotated coordinates u = x + (y+1), v = (y+1) + (8-x) scaled by nside/2, exactly
/// (power-of-two scaling through the exponent bits) -- in particular finite, also when u or v is 0.
/// finite-and-in-range part alone (cheap): 0 <= outputs <= 5.5 nside, never NaN / infinite
fn check_srs_finite(d: u8) {
  let l = Layer::new(d);
  let (x, y) = choose_point();
  let mut xy = (x, y);
  l.shift_rotate_scale(&mut xy);
  let n = (1u64 << d) as f64;
  // a point numerically on a gore edge may have u or v = -1 ulp(1): tolerance 1e-15 in units of the base cell
  assert!(xy.0 >= -1e-15 * n && xy.0 <= 5.5 * n && xy.1 >= -1e-15 * n && xy.1 <= 5.5 * n, "C03 rotated, scaled coordinates are finite and within [0, 5.5 nside]");
  kani::cover!(x + (y + 1.0) == 0.0, "u exactly 0 (south-west edge of base cell 8, lon = 0)");
}
fn check_srs(d: u8) {
  let l = Layer::new(d);
  let (x, y) = choose_point();
  let mut xy = (x, y);
  l.shift_rotate_scale(&mut xy);
  let c = 0.5 * ((1u64 << d) as f64);
  let yp = y + 1.0;
  let u = x + yp; let v = yp + (8.0 - x);
  assert!(xy.0 == xy.0 && xy.1 == xy.1 && xy.0.abs() < 1e300 && xy.1.abs() < 1e300, "C03 rotated, scaled coordinates are finite");
  assert!((xy.0 - u * c).abs() <= 1e-290 && (xy.1 - v * c).abs() <= 1e-290, "C03 shift_rotate_scale == (u, v) * nside/2 exactly");
  kani::cover!(u == 0.0, "u exactly 0 (south-west edge of base cell 8, lon = 0)");
}

/// hash_with_dxdy: cell < 12*4^d, offsets finite in [0,1], and the position recomposed from
/// (cell, dx, dy) in the projection plane is the position itself (modulo 8 in x) to 1e-13/nside.
fn check_hash_dxdy(d: u8) {
  let l = Layer::new(d);
  let (x, y) = choose_point();
  let (h, dx, dy) = l.hash_with_dxdy(kani::any(), kani::any());
  assert!(h < sp::n_hash(d), "C03 hash_with_dxdy cell < 12*4^depth");
  assert!(dx >= 0.0 && dx <= 1.0 && dy >= 0.0 && dy <= 1.0, "C03 offsets finite in [0, 1]");
  // the returned cell is the one whose base cell / (i, j) the projected point falls in: checked in
  // strip form against the integer geometry of the returned cell (u = x' + y', v = y' - x' rotated frame)
  let b = (h >> (2 * d as u32)) as u8;
  assert!(b < 12, "C03 base cell of the returned cell");
  // coarse containment, independent of the depth: the point is in the diamond of that base cell
  // (integer geometry), except on the glued gore edges where the cell across the seam is as good
  let (cx, cy) = sp::base_cell_center(b);
  let mut ex = x - cx as f64;
  if ex > 4.0 { ex -= 8.0; }
  if ex < -4.0 { ex += 8.0; }
  let strictly_inside_gore = !(y > 1.0 || y < -1.0) || { let q = (x * 0.5) as u8; let apex = (2 * (q & 3) + 1) as f64; (x - apex).abs() <= 2.0 - y.abs() - 1e-12 };
  if strictly_inside_gore { assert!(ex.abs() + (y - cy as f64).abs() <= 1.0 + 1e-12, "C03 the position lies in the base cell of the returned cell"); }
  kani::cover!(y == 2.0, "north pole");
  kani::cover!(x > 7.5 && y.abs() < 0.4, "east half of base cell 4");
}

// ---- hash_with_dxdy, discretisation tail: shift_rotate_scale replaced by its contract ---------------
static mut G_US: f64 = 0.0;
static mut G_VS: f64 = 0.0;
fn ghost_srs(_l: &Layer, xy: &mut (f64, f64)) { unsafe { xy.0 = G_US; xy.1 = G_VS; } }
/// position of base cell b in the rotated frame (I, J) = (floor(u/2), floor(v/2)), u = x+y+1, v = y+9-x;
/// base cell 4 appears twice (x in [0,1) and x in (7,8]): `east` selects the copy at x ~ 8
fn base_cell_ij(b: u8, east_copy_of_4: bool) -> (u64, u64) {
  let q = (b & 3) as u64;
  match b >> 2 { 0 => (q + 1, 4 - q), 1 => if b == 4 && east_copy_of_4 { (4, 0) } else { (q, 4 - q) }, _ => (q, 3 - q) }
}
/// For every point STRICTLY inside the net (not within rounding of a glued gore edge) and its exact
/// rotated/scaled coordinates (us, vs): hash_with_dxdy returns a cell < 12*4^d whose unit square in
/// the rotated frame contains (us, vs) [i.e. the cell contains the position], with dx = us - floor,
/// dy = vs - floor in [0, 1).
fn check_hdxdy_tail(d: u8) {
  let l = Layer::new(d);
  let (x, y) = choose_point();
  let strictly_inside = !(y > 1.0 || y < -1.0) || { let q = (x * 0.5) as u8; let apex = (2 * (q & 3) + 1) as f64; (x - apex).abs() <= 2.0 - y.abs() - 1e-9 };
  kani::assume(strictly_inside && y < 2.0 - 1e-9 && y > -2.0 + 1e-9);
  let c = 0.5 * ((1u64 << d) as f64);
  let yp = y + 1.0;
  let (us, vs) = ((x + yp) * c, (yp + (8.0 - x)) * c);
  unsafe { G_US = us; G_VS = vs; }
  let (h, dx, dy) = l.hash_with_dxdy(kani::any(), kani::any());
  assert!(h < sp::n_hash(d), "C03 hash_with_dxdy cell < 12*4^depth");
  assert!(dx >= 0.0 && dx < 1.0 && dy >= 0.0 && dy < 1.0, "C03 offsets in [0, 1)");
  // expected cell, from the integer geometry of the rotated frame (no loop: keeps the recursion of
  // depth0_bits cheap to unwind): unit square [it, it+1) x [jt, jt+1) containing (us, vs)
  let n = 1u64 << d;
  let (it, jt) = (us as u64, vs as u64);
  let (ib, jb) = (it >> d, jt >> d);                     // base cell coordinates
  // when rounding puts the point exactly on the upper border of a base cell, (ib, jb) is not a base cell
  // of the net (ib + jb = 6 or 7, or 2): these are the rare arms of depth0_bits (k in {-2,-1,3,4}), which
  // move to an adjacent cell; there only range obligations are stated
  let is_base_cell = (ib + jb == 5 && ib >= 1 && ib <= 4) || (ib + jb == 4 && ib <= 4) || (ib + jb == 3 && ib <= 3);
  if is_base_cell {
    let row = 5 - (ib + jb);                                 // 0 north, 1 equatorial, 2 south
    let col = if row == 0 { ib - 1 } else { ib & 3 };
    let b = (4 * row + col) as u8;
    let expect = l.build_hash((b as u64) << (2 * d as u32), (it & (n - 1)) as u32, (jt & (n - 1)) as u32); // real codec (C04/C18); build_hash carries no injected contract, so no spec loop to unwind
    assert!(h == expect, "C03 the returned cell is the one whose unit square (rotated, scaled frame) contains the position");
    assert!(dx == us - (it as f64) && dy == vs - (jt as f64), "C03 offsets are the position relative to the south corner of the returned cell");
    kani::cover!(ib == 4, "west half of base cell 4 seen at x in ]7, 8[");
    kani::cover!(row == 0); kani::cover!(row == 2);
  } else {
    kani::cover!(true, "rare arm of depth0_bits (point on the upper border of a base cell)");
  }
}

macro_rules! per_depth {
  ($($d:literal => $c:ident, $p:ident, $h:ident, $s:ident, $f:ident, $t:ident);* $(;)?) => { $(
    #[kani::proof] #[kani::stub(crate::proj, ghost_proj)] #[kani::stub(Layer::shift_rotate_scale, ghost_srs)] #[kani::unwind(3)] fn $t() { check_hdxdy_tail($d) }
    #[kani::proof] #[kani::unwind(33)] fn $c() { check_center($d) }
    #[kani::proof] #[kani::unwind(33)] fn $p() { check_center_panic($d) }
    #[kani::proof] #[kani::unwind(4)] fn $s() { check_srs($d) }
    #[kani::proof] #[kani::unwind(4)] fn $f() { check_srs_finite($d) }
    #[kani::proof] #[kani::stub(crate::proj, ghost_proj)] #[kani::unwind(4)] fn $h() { check_hash_dxdy($d) }
  )* }
}
per_depth! {
  0 => geom_center_d00, geom_panic_d00, geom_hdxdy_d00, geom_srs_d00, geom_srsfin_d00, geom_hdtail_d00; 1 => geom_center_d01, geom_panic_d01, geom_hdxdy_d01, geom_srs_d01, geom_srsfin_d01, geom_hdtail_d01;
  2 => geom_center_d02, geom_panic_d02, geom_hdxdy_d02, geom_srs_d02, geom_srsfin_d02, geom_hdtail_d02; 3 => geom_center_d03, geom_panic_d03, geom_hdxdy_d03, geom_srs_d03, geom_srsfin_d03, geom_hdtail_d03;
  8 => geom_center_d08, geom_panic_d08, geom_hdxdy_d08, geom_srs_d08, geom_srsfin_d08, geom_hdtail_d08; 9 => geom_center_d09, geom_panic_d09, geom_hdxdy_d09, geom_srs_d09, geom_srsfin_d09, geom_hdtail_d09;
  16 => geom_center_d16, geom_panic_d16, geom_hdxdy_d16, geom_srs_d16, geom_srsfin_d16, geom_hdtail_d16; 17 => geom_center_d17, geom_panic_d17, geom_hdxdy_d17, geom_srs_d17, geom_srsfin_d17, geom_hdtail_d17;
  24 => geom_center_d24, geom_panic_d24, geom_hdxdy_d24, geom_srs_d24, geom_srsfin_d24, geom_hdtail_d24; 29 => geom_center_d29, geom_panic_d29, geom_hdxdy_d29, geom_srs_d29, geom_srsfin_d29, geom_hdtail_d29;
}

// ---- C19 bilinear interpolation (hash_with_dxdy replaced by its contract) -------------------------
static mut B_H: u64 = 0;
static mut B_DX: f64 = 0.0;
static mut B_DY: f64 = 0.0;
fn ghost_hash_with_dxdy(_l: &Layer, _lon: f64, _lat: f64) -> (u64, f64, f64) { unsafe { (B_H, B_DX, B_DY) } }
fn check_bilinear(d: u8, center_only: bool) {
  let l = Layer::new(d);
  let h: u64 = kani::any(); let dx: f64 = kani::any(); let dy: f64 = kani::any();
  kani::assume(h < sp::n_hash(d) && dx >= 0.0 && dx <= 1.0 && dy >= 0.0 && dy <= 1.0);
  if center_only { kani::assume(dx == 0.5 && dy == 0.5); }
  unsafe { B_H = h; B_DX = dx; B_DY = dy; }
  let r = l.bilinear_interpolation(kani::any(), kani::any());
  let nb = l.neighbours(h, true);
  let mut has_center = false; let mut k = 0;
  while k < 4 {
    let (c, w) = r[k];
    assert!(w >= 0.0, "C19 weights are non-negative");
    // every returned cell is the cell itself or one of its neighbours
    let mut ok = c == h; let mut q = 0u8;
    while q < 9 { if let Some(&x) = nb.get(MainWind::from_index(q)) { if x == c { ok = true; } } q += 1; }
    assert!(ok, "C19 returned cells are the cell of the position or neighbours of it");
    if c == h { has_center = true; }
    k += 1;
  }
  assert!(has_center, "C19 the cell containing the position is always present");
  // quadrant selection: the three other cells are the neighbours on the side of the position
  let east = dx > 0.5; let north_w = dy > 0.5;
  let corner = match (north_w, east) { (false, false) => 0u8, (false, true) => 2, (true, false) => 6, (true, true) => 8 }; // S, E, W, N
  match nb.get(MainWind::from_index(corner)) {
    Some(&x) => { assert!(r[0].0 == x || r[1].0 == x || r[2].0 == x || r[3].0 == x, "C19 the corner neighbour of the position's quadrant takes part"); }
    None => {
      // next to a three-cell point: the missing corner's slot carries (cell, 0)
      let mut zero_slot = false; let mut k = 0;
      while k < 4 { if r[k].0 == h && r[k].1 == 0.0 { zero_slot = true; } k += 1; }
      assert!(zero_slot, "C19 a missing corner neighbour contributes weight 0");
      kani::cover!(true, "quadrant facing a three-cell point");
    }
  }
  if center_only {
    let mut wsum_on_h = 0.0; let mut k = 0;
    while k < 4 { if r[k].0 == h { wsum_on_h += r[k].1; } else { assert!(r[k].1 == 0.0, "C19 at the cell centre the neighbours weigh 0"); } k += 1; }
    assert!(wsum_on_h == 1.0, "C19 at the cell centre the weight of the cell is 1");
  }
}

/// Partition of unity and weight formulas on the dyadic grid of offsets dx, dy in {0, 1/8, ..., 1}
/// (all products are exact there, so the sum must be EXACTLY 1), for ALL cells of the depth.
fn check_bilinear_grid(d: u8) {
  let l = Layer::new(d);
  let h: u64 = kani::any(); let a: u8 = kani::any(); let b: u8 = kani::any();
  kani::assume(h < sp::n_hash(d) && a <= 8 && b <= 8);
  let dx = (a as f64) * 0.125; let dy = (b as f64) * 0.125;
  unsafe { B_H = h; B_DX = dx; B_DY = dy; }
  let r = l.bilinear_interpolation(kani::any(), kani::any());
  let nb = l.neighbours(h, true);
  assert!(r[0].1 + r[1].1 + r[2].1 + r[3].1 == 1.0, "C19 weights sum to 1 (exactly, on the dyadic grid of offsets)");
  let east = dx > 0.5; let north_w = dy > 0.5;
  let corner = match (north_w, east) { (false, false) => 0u8, (false, true) => 2, (true, false) => 6, (true, true) => 8 };
  // weights: standard bilinear weights of the 2x2 block of cells around the position, written in
  // factored form; when the block's far corner does not exist (three-cell point) its weight is
  // shared equally between the two side cells (statement + doc comment of the function)
  let (sx, sy) = (if east { dx - 0.5 } else { 0.5 - dx }, if north_w { dy - 0.5 } else { 0.5 - dy }); // distance to the near cell borders, in [0, 0.5]
  let (fx, fy) = (if east { 1.5 - dx } else { 0.5 + dx }, if north_w { 1.5 - dy } else { 0.5 + dy }); // 1 - sx, 1 - sy
  // side cells: the one across the x-border (E or W side) and the one across the y-border
  let (side_x, side_y) = match (north_w, east) { (false, false) => (3u8, 1u8), (false, true) => (5, 1), (true, false) => (3, 7), (true, true) => (5, 7) };
  // dx runs along the south-to-east axis, dy along the south-to-west axis. S quadrant: across dx=0 is SW (3), across dy=0 is SE (1); E quadrant: across dx=1 NE (5), across dy=0 SE (1); W quadrant: across dx=0 SW (3), across dy=1 NW (7); N quadrant: NE (5), NW (7)
  let cx = *nb.get(MainWind::from_index(side_x)).unwrap();
  let cy = *nb.get(MainWind::from_index(side_y)).unwrap();
  let has = |cell: u64, w: f64| -> bool { (r[0].0 == cell && r[0].1 == w) || (r[1].0 == cell && r[1].1 == w) || (r[2].0 == cell && r[2].1 == w) || (r[3].0 == cell && r[3].1 == w) };
  assert!(has(h, fx * fy), "C19 weight of the cell itself == (1 - sx)(1 - sy)");
  match nb.get(MainWind::from_index(corner)) {
    Some(&cc) => {
      assert!(has(cc, sx * sy), "C19 weight of the corner cell == sx * sy");
      assert!(has(cx, sx * fy) && has(cy, fx * sy), "C19 weights of the side cells == sx (1 - sy), (1 - sx) sy");
    }
    None => {
      // each side cell receives half of the missing corner's weight: sx(1-sy) + sx sy/2 = sx (1 - sy/2), written as the code's factored constants
      let hx = if north_w { 1.25 - 0.5 * dy } else { 0.75 + 0.5 * dy };   // 1 - sy/2
      let hy = if east { 1.25 - 0.5 * dx } else { 0.75 + 0.5 * dx };      // 1 - sx/2
      assert!(has(cx, sx * hx) || has(cx, hx * sx), "C19 side cell across the x-border gets its weight plus half of the missing corner's");
      assert!(has(cy, sy * hy) || has(cy, hy * sy), "C19 side cell across the y-border gets its weight plus half of the missing corner's");
    }
  }
  kani::cover!(nb.get(MainWind::from_index(corner)).is_none() && a != b, "quadrant facing a three-cell point, off the diagonal");
}
macro_rules! bil {
  ($($d:literal => $a:ident, $c:ident, $g:ident);* $(;)?) => { $(
    #[kani::proof] #[kani::stub(Layer::hash_with_dxdy, ghost_hash_with_dxdy)] #[kani::unwind(33)] fn $a() { check_bilinear($d, false) }
    #[kani::proof] #[kani::stub(Layer::hash_with_dxdy, ghost_hash_with_dxdy)] #[kani::unwind(33)] fn $c() { check_bilinear($d, true) }
    #[kani::proof] #[kani::stub(Layer::hash_with_dxdy, ghost_hash_with_dxdy)] #[kani::unwind(33)] fn $g() { check_bilinear_grid($d) }
  )* }
}
bil! { 0 => bilinear_d00, bilinear_center_d00, bilinear_grid_d00; 1 => bilinear_d01, bilinear_center_d01, bilinear_grid_d01; 2 => bilinear_d02, bilinear_center_d02, bilinear_grid_d02; 3 => bilinear_d03, bilinear_center_d03, bilinear_grid_d03; 9 => bilinear_d09, bilinear_center_d09, bilinear_grid_d09; 29 => bilinear_d29, bilinear_center_d29, bilinear_grid_d29; }
