//! C01 / C02 — NESTED hash. Child module of src/nested/mod.rs.
//!
//! Decomposition (DESIGN §2.2b, one hard ingredient per query):
//!   trig layer   Layer::d0h_lh_in_d0c(lon,lat) -> (d0h, l, h)      contract: hash_trig_*
//!   tail         exponent-bit scaling, cast, clamp (inside hash_v2) contract: hash_tail_* (strip form)
//!   codec        build_hash_from_parts                             contract proved in C04 (stub_verified)
//! In the tail harnesses the trig layer is replaced by its contract (a memoised nondeterministic
//! triple satisfying the postcondition), so both depths of C02 read the same (d0h, l, h).
#![allow(static_mut_refs)]
use super::*;
use crate::verif_spec as sp;

// ---- xpm1_and_q ------------------------------------------------------------------------------
/// For every finite |lon| <= 200 (more than 30 turns): quarter < 4, x in [-1, 1], and
/// x + (2q'+1) == |lon|*4/pi exactly where q' is the unreduced odd floor (sign-reflected for lon<0).
#[kani::proof]
fn hash_xpm1_contract() {
  let lon: f64 = kani::any();
  kani::assume(lon >= -200.0 && lon <= 200.0);
  let (x, q) = Layer::xpm1_and_q(lon);
  assert!(q < 4, "C01 quarter in 0..=3");
  assert!(x >= -1.0 && x <= 1.0, "C01 in-quarter coordinate within [-1, 1] for every longitude within a few turns");
  // the quarter is the one containing |lon| (mod 2pi), reflected for negative longitudes
  let t = lon.abs() * FOUR_OVER_PI;          // in units of pi/4
  let fl = t as u64;                          // floor
  let expect_q = ((fl >> 1) & 3) as u8;
  if lon.to_bits() >> 63 == 0 { assert!(q == expect_q, "C01 quarter of a positive longitude"); }
  else { assert!(q == 3 - expect_q, "C01 quarter of a negative longitude (mirrored)"); }
  kani::cover!(lon > 6.3 && lon < 6.6, "beyond one turn");
  kani::cover!(lon < -6.3, "negative, beyond one turn");
}

// ---- trig layer contract -----------------------------------------------------------------------
// libm facts used (assumed, audited natively by bin/libm_audit): for lat in [-pi/2, pi/2]
//   sin(lat) in [-1,1]; |lat| <= TRANSITION_LATITUDE  =>  |1.5*sin(lat)| <= 1
//   lat >  TRANSITION_LATITUDE => 0 <= sqrt6*cos(lat/2 + pi/4) <= 1
//   lat < -TRANSITION_LATITUDE => 0 <= sqrt6*cos(lat/2 - pi/4) <= 1
static mut TRIG_ARG: f64 = 0.0;
static mut TRIG_RET: f64 = 0.0;   // value returned by the last libm stub call (the harness needs it to state the oracle)
fn ax_cos(x: f64) -> f64 {
  let r: f64 = kani::any();
  // only called with lat/2 +- pi/4 where |lat| > transition latitude: result in [0, 1/sqrt6]
  kani::assume(r >= 0.0 && r * SQRT6 <= 1.0);
  unsafe { TRIG_ARG = x; TRIG_RET = r; }
  r
}
fn ax_sin(x: f64) -> f64 {
  let r: f64 = kani::any();
  kani::assume(r >= -1.0 && r <= 1.0);
  unsafe { TRIG_RET = r; }
  if x >= -TRANSITION_LATITUDE && x <= TRANSITION_LATITUDE { kani::assume(r * ONE_OVER_TRANSITION_Z >= -1.0 && r * ONE_OVER_TRANSITION_Z <= 1.0); }
  r
}
/// d0h_lh_in_d0c: base cell < 12, (l, h) inside the base-cell diamond |l| <= min(h, 2-h), h in [0,2],
/// base-cell row consistent with the latitude region, for all lon in [-200,200], lat in [-pi/2,pi/2].
#[kani::proof] #[kani::stub(f64::cos, ax_cos)] #[kani::stub(f64::sin, ax_sin)] fn hash_trig_contract_eqr() { trig_plain(0) }
#[kani::proof] #[kani::stub(f64::cos, ax_cos)] #[kani::stub(f64::sin, ax_sin)] fn hash_trig_contract_npc() { trig_plain(1) }
#[kani::proof] #[kani::stub(f64::cos, ax_cos)] #[kani::stub(f64::sin, ax_sin)] fn hash_trig_contract_spc() { trig_plain(2) }
#[kani::proof] #[kani::stub(f64::cos, ax_cos)] #[kani::stub(f64::sin, ax_sin)] fn hash_trig_oracle_eqr() { trig_oracle(0) }
#[kani::proof] #[kani::stub(f64::cos, ax_cos)] #[kani::stub(f64::sin, ax_sin)] fn hash_trig_oracle_npc() { trig_oracle(1) }
#[kani::proof] #[kani::stub(f64::cos, ax_cos)] #[kani::stub(f64::sin, ax_sin)] fn hash_trig_oracle_spc() { trig_oracle(2) }
/// base-cell identity alone (integers only): in the equatorial region the returned base cell is one
/// of the four cells meeting the longitude quarter of the point: NPC q, SPC q+8, EQR 4+q, EQR 4+((q+1)&3)
#[kani::proof] #[kani::stub(f64::cos, ax_cos)] #[kani::stub(f64::sin, ax_sin)]
fn hash_trig_basecell_eqr() {
  let lon: f64 = kani::any(); let lat: f64 = kani::any();
  kani::assume(lon >= -200.0 && lon <= 200.0 && lat >= -TRANSITION_LATITUDE && lat <= TRANSITION_LATITUDE);
  let (d0h, _l, _h) = Layer::d0h_lh_in_d0c(lon, lat);
  let (_x_pm1, q) = Layer::xpm1_and_q(lon);
  assert!(d0h == q || d0h == q + 8 || d0h == 4 + q || d0h == 4 + ((q + 1) & 3), "C01 the base cell is one of the four cells meeting the longitude quarter of the point");
  kani::cover!(d0h == 4 && q == 3, "base cell 4 reached from the last longitude quarter (wrap)");
}
/// which of the four base cells: by the position of (x_pm1, y_pm1) w.r.t. the two diagonals of the quarter
#[kani::proof] #[kani::stub(f64::cos, ax_cos)] #[kani::stub(f64::sin, ax_sin)]
fn hash_trig_quadrant_eqr() {
  let lon: f64 = kani::any(); let lat: f64 = kani::any();
  kani::assume(lon >= -200.0 && lon <= 200.0 && lat >= -TRANSITION_LATITUDE && lat <= TRANSITION_LATITUDE);
  let (d0h, _l, _h) = Layer::d0h_lh_in_d0c(lon, lat);
  let (_x_pm1, q) = Layer::xpm1_and_q(lon);
  // which of the four: by the position of (x_pm1, y_pm1) with respect to the two diagonals of the quarter
  // (S->E and S->W edges belong to a cell, as documented)
  let y = unsafe { TRIG_RET } * ONE_OVER_TRANSITION_Z;
  let x = _x_pm1;
  if y >= x && y >= -x { assert!(d0h == q, "C01 north quadrant of the quarter -> north polar base cell q"); }
  else if x > y && x >= -y { assert!(d0h == 4 + ((q + 1) & 3), "C01 east quadrant -> the equatorial base cell east of the quarter"); }
  else if x <= y && x < -y { assert!(d0h == 4 + q, "C01 west quadrant -> the equatorial base cell west of the quarter"); }
  else { assert!(d0h == q + 8, "C01 south quadrant -> south polar base cell q + 8"); }
}
// the plain contract and the oracle are separate functions: covers of a part a harness does not call
// would be reported UNREACHABLE for it
fn trig_base(region: u8) -> (f64, u8, f64, f64) {
  let lon: f64 = kani::any(); let lat: f64 = kani::any();
  kani::assume(lon >= -200.0 && lon <= 200.0 && lat >= -HALF_PI && lat <= HALF_PI);
  match region { 0 => kani::assume(lat >= -TRANSITION_LATITUDE && lat <= TRANSITION_LATITUDE), 1 => kani::assume(lat > TRANSITION_LATITUDE), _ => kani::assume(lat < -TRANSITION_LATITUDE) }
  let (d0h, l, h) = Layer::d0h_lh_in_d0c(lon, lat);
  assert!(d0h < 12, "C01 base cell in 0..12");
  assert!(h >= 0.0 && h <= 2.0 && h.to_bits() >> 63 == 0, "C01 h in [+0, 2]");
  assert!(l >= -1.0 && l <= 1.0, "C01 l in [-1, 1]");
  // inside the base-cell diamond, in the form the discretisation uses: the two rotated coordinates
  // u = h + l and v = h - l (one rounded addition each) are in [+0, 2] (never negative, never -0)
  let (u, v) = (h + l, h - l);
  assert!(u.to_bits() >> 63 == 0 && v.to_bits() >> 63 == 0, "C01 rotated coordinates are never negative (nor -0.0)");
  assert!(u <= 2.0 && v <= 2.0, "C01 rotated coordinates do not exceed the base-cell size");
  if lat > TRANSITION_LATITUDE { assert!(d0h < 4 && h >= 1.0, "C01 north cap -> north polar base cell, upper half"); }
  if lat < -TRANSITION_LATITUDE { assert!(d0h >= 8 && h <= 1.0, "C01 south cap -> south polar base cell, lower half"); }
  (lon, d0h, l, h)
}
fn trig_plain(region: u8) {
  let (lon, d0h, _l, _h) = trig_base(region);
  kani::cover!(region != 0 || (d0h >= 4 && d0h < 8), "equatorial base cell");
  kani::cover!(lon < 0.0, "negative longitude");
}
fn trig_oracle(region: u8) {
  let (lon, d0h, l, h) = trig_base(region);
  // ORACLE (integer geometry of the projection plane, independent of the quadrant logic): in the
  // frame of the longitude quarter q the point is at X = 2q + 1 + x_pm1 (mod 8), Y = y_pm1 (resp. the
  // Collignon ordinate); (l, h - 1) must be exactly that position relative to the centre of base cell d0h.
  let (x_pm1, q) = Layer::xpm1_and_q(lon);
  let (cx, cy) = sp::base_cell_center(d0h);
  let mut dq = cx - (2 * q as i64 + 1);         // -1, 0 or +1 (modulo 8)
  if dq < -4 { dq += 8; }
  if dq > 4 { dq -= 8; }
  assert!(dq >= -1 && dq <= 1, "C01 the base cell is one of the four cells meeting the longitude quarter");
  let t = unsafe { TRIG_RET };
  if region == 0 {
    let y_pm1 = t * ONE_OVER_TRANSITION_Z;
    assert!(h == y_pm1 + (1 - cy) as f64, "C01 h is the ordinate of the point relative to the south corner of the chosen base cell");
    assert!(l == x_pm1 - dq as f64, "C01 l is the abscissa of the point relative to the centre of the chosen base cell");
  } else {
    let s = SQRT6 * t;
    assert!(d0h == if region == 1 { q } else { q + 8 }, "C01 polar cap: base cell of the longitude quarter");
    assert!(l == x_pm1 * s && h == if region == 1 { 2.0 - s } else { s }, "C01 polar cap: Collignon coordinates relative to the base cell");
  }
  kani::cover!(region != 0 || (d0h >= 4 && d0h < 8), "equatorial base cell");
  kani::cover!(region != 0 || (d0h == 4 && q == 3), "base cell 4 reached from the last longitude quarter (wrap)");
  kani::cover!(region != 0 || d0h < 4, "equatorial latitude in a north polar base cell");
  kani::cover!(lon < 0.0, "negative longitude");
}

// ---- tail: (d0h, l, h) -> (i, j) -----------------------------------------------------------------
static mut G_D0H: u8 = 0;
static mut G_L: f64 = 0.0;
static mut G_H: f64 = 0.0;
/// contract of the trig layer used as a stub: the memoised triple chosen by the harness
fn ghost_d0h_lh(_lon: f64, _lat: f64) -> (u8, f64, f64) { unsafe { (G_D0H, G_L, G_H) } }
fn choose_triple() {
  let d0h: u8 = kani::any(); let l: f64 = kani::any(); let h: f64 = kani::any();
  kani::assume(d0h < 12 && h >= 0.0 && h <= 2.0 && h.to_bits() >> 63 == 0 && l >= -1.0 && l <= 1.0);
  let (u, v) = (h + l, h - l);
  kani::assume(u.to_bits() >> 63 == 0 && v.to_bits() >> 63 == 0 && u <= 2.0 && v <= 2.0);
  unsafe { G_D0H = d0h; G_L = l; G_H = h; }
}
/// strip form of containment: with u = h + l, v = h - l (each ONE rounded addition) and s = 2/nside:
/// i*s <= u < (i+1)*s unless clamped (u >= 2 -> i = nside-1), same for j with v; base cell kept.
fn check_tail(d: u8) {
  let layer = Layer::new(d);
  choose_triple();
  let lon: f64 = kani::any(); let lat: f64 = kani::any();
  kani::assume(lat >= -HALF_PI && lat <= HALF_PI);
  let hash = layer.hash(lon, lat);
  assert!(hash < sp::n_hash(d), "C01 hash < 12*4^depth");
  let (b, i, j) = sp::decode(d, hash);
  let (d0h, l, h) = unsafe { (G_D0H, G_L, G_H) };
  assert!(b == d0h, "C01 hash lies in the base cell chosen by the projection");
  let n = (1u64 << d) as f64;
  let u = h + l; let v = h - l;
  let s = 2.0 / n;                 // exact power of two
  let (fi, fj) = (i as f64, j as f64);
  assert!(fi * s <= u || u < 0.0, "C01 point not below the SW border of its cell (i strip)");
  assert!(u < (fi + 1.0) * s || (i as u64 == (1u64 << d) - 1 && u >= 2.0 - s), "C01 point below the NE border of its cell, or clamped on the base-cell border");
  assert!(fj * s <= v || v < 0.0, "C01 point not below the SE border of its cell (j strip)");
  assert!(v < (fj + 1.0) * s || (j as u64 == (1u64 << d) - 1 && v >= 2.0 - s), "C01 point below the NW border of its cell, or clamped");
  kani::cover!(u == 2.0, "exactly on the north-east border of the base cell (clamp)");
  kani::cover!(u == 0.0 && v == 0.0, "south corner of the base cell");
}
/// C02: hash at depth d == hash at depth d+1 >> 2, for the same (d0h, l, h)
fn check_prefix(d: u8) {
  let l1 = Layer::new(d); let l2 = Layer::new(d + 1);
  choose_triple();
  let lon: f64 = kani::any(); let lat: f64 = kani::any();
  kani::assume(lat >= -HALF_PI && lat <= HALF_PI);
  let a = l1.hash(lon, lat); let b = l2.hash(lon, lat);
  assert!(a == b >> 2, "C02 cell at depth d is the parent of the cell at depth d+1, bit for bit");
  kani::cover!(unsafe { G_H + G_L } == 2.0, "on the base-cell border (clamp at both depths)");
}
macro_rules! tail_h {
  ($($d:literal => $t:ident, $p:ident);* $(;)?) => { $(
    #[kani::proof] #[kani::stub(Layer::d0h_lh_in_d0c, ghost_d0h_lh)] #[kani::stub_verified(Layer::build_hash_from_parts)] #[kani::unwind(33)] fn $t() { check_tail($d) }
    #[kani::proof] #[kani::stub(Layer::d0h_lh_in_d0c, ghost_d0h_lh)] #[kani::unwind(33)] fn $p() { check_prefix($d) }
  )* }
}
tail_h! {
  0 => hash_tail_d00, hash_prefix_d00; 1 => hash_tail_d01, hash_prefix_d01; 2 => hash_tail_d02, hash_prefix_d02;
  3 => hash_tail_d03, hash_prefix_d03; 4 => hash_tail_d04, hash_prefix_d04; 5 => hash_tail_d05, hash_prefix_d05;
  6 => hash_tail_d06, hash_prefix_d06; 7 => hash_tail_d07, hash_prefix_d07; 8 => hash_tail_d08, hash_prefix_d08;
  9 => hash_tail_d09, hash_prefix_d09; 10 => hash_tail_d10, hash_prefix_d10; 11 => hash_tail_d11, hash_prefix_d11;
  12 => hash_tail_d12, hash_prefix_d12; 13 => hash_tail_d13, hash_prefix_d13; 14 => hash_tail_d14, hash_prefix_d14;
  15 => hash_tail_d15, hash_prefix_d15; 16 => hash_tail_d16, hash_prefix_d16; 17 => hash_tail_d17, hash_prefix_d17;
  18 => hash_tail_d18, hash_prefix_d18; 19 => hash_tail_d19, hash_prefix_d19; 20 => hash_tail_d20, hash_prefix_d20;
  21 => hash_tail_d21, hash_prefix_d21; 22 => hash_tail_d22, hash_prefix_d22; 23 => hash_tail_d23, hash_prefix_d23;
  24 => hash_tail_d24, hash_prefix_d24; 25 => hash_tail_d25, hash_prefix_d25; 26 => hash_tail_d26, hash_prefix_d26;
  27 => hash_tail_d27, hash_prefix_d27; 28 => hash_tail_d28, hash_prefix_d28;
}
#[kani::proof] #[kani::stub(Layer::d0h_lh_in_d0c, ghost_d0h_lh)] #[kani::stub_verified(Layer::build_hash_from_parts)] #[kani::unwind(33)] fn hash_tail_d29() { check_tail(29) }

#[kani::proof]
#[kani::stub(Layer::d0h_lh_in_d0c, ghost_d0h_lh)]
fn hash_lat_must_panic() {
  let d: u8 = kani::any(); kani::assume(d <= 29);
  let layer = Layer::new(d);
  choose_triple();
  let lon: f64 = kani::any(); let lat: f64 = kani::any();
  kani::assume(!(lat >= -HALF_PI && lat <= HALF_PI)); // out of range, +-inf or NaN
  kani::cover!(lat != lat, "NaN latitude");
  let _ = layer.hash(lon, lat);
  assert!(false, "MUST_PANIC hash accepted a latitude outside [-pi/2, pi/2]");
}
#[kani::proof] #[kani::stub(Layer::d0h_lh_in_d0c, ghost_d0h_lh)] #[kani::stub_verified(Layer::build_hash_from_parts)] #[kani::unwind(33)]
fn hash_tail_canary() {
  let layer = Layer::new(3);
  choose_triple();
  let hash = layer.hash(kani::any(), 0.0);
  let (_, i, _) = sp::decode(3, hash);
  assert!((i as f64) * 0.25 < unsafe { G_H + G_L }, "CANARY strict lower border must be refuted");
}
