#!/usr/bin/env python3
"""
Driver of the contract-based verification of /repo (see /verif/DESIGN.md §2).

  snapshot /repo working tree -> scratch copy -> overlay (contract attributes on the real
  functions + harness modules as child modules) -> cargo kani per unit -> triage -> native
  replay of counterexamples (cargo kani playback, real libm) -> evidence/<id>.json

Exit codes: 0 all obligations discharged; 1 violation (VIOLATION line printed);
            2 undecided (timeout, out of memory, lost anchor, unwinding, vacuous harness, ...).
"""
import atexit
import hashlib
import importlib.util
import json
import os
import re
import shutil
import signal
import subprocess
import sys
import threading
import time

VERIF = os.path.dirname(os.path.dirname(os.path.abspath(__file__)))
REPO = os.environ.get("VERIF_REPO", "/repo")
MARK = "// @verif"
KANI_FLAGS = ["-Z", "function-contracts", "-Z", "stubbing", "-Z", "unstable-options"]


def log(*a):
    print(*a, flush=True)


# --------------------------------------------------------------------------------------------
# units
# --------------------------------------------------------------------------------------------
class Unit:
    """One obligation = one Kani harness (or one Verus/z3 item).

    kind:
      proof       harness must verify; every cover must be SATISFIED
      canary      same preconditions + deliberately false claim: must FAIL (vacuity guard)
      must_panic  every path through the call must panic in one of `allowed_fail` (regex on the
                  check description); the marker assertion after the call must be unreachable
      witness     known-finding witness: expected to FAIL; prints KNOWN-FINDING
    level: 'P' complete proof for the stated domain, 'B' bounded stand-in (never counted as proof)
    """

    def __init__(self, name, harness, fns, claim, kind="proof", level="P", tiers=("quick", "thorough"),
                 timeout=300, mem_gb=4, allowed_fail=(), bound=None, engine="kani", extra=None,
                 known_finding=None, domain=None):
        self.name = name
        self.harness = harness
        self.fns = fns if isinstance(fns, (list, tuple)) else [fns]
        self.claim = claim
        self.kind = kind
        self.level = level
        self.tiers = tiers
        self.timeout = timeout
        self.mem_gb = mem_gb
        self.allowed_fail = list(allowed_fail)
        self.bound = bound
        self.engine = engine
        self.extra = extra or {}
        self.known_finding = known_finding
        self.domain = domain


class Result:
    def __init__(self, unit):
        self.unit = unit
        self.status = "undecided"  # discharged | violation | undecided | known
        self.reason = ""
        self.checks = 0
        self.failed = []
        self.covers = {}
        self.wall = 0.0
        self.solver_s = 0.0
        self.log_path = None
        self.stubs = []
        self.replay = None
        self.reproduced = None


# --------------------------------------------------------------------------------------------
# scratch copy + overlay
# --------------------------------------------------------------------------------------------
class Scratch:
    def __init__(self, prop_id):
        base = os.environ.get("VERIF_SCRATCH", "/var/tmp")
        self.root = os.path.join(base, "verif-%s-%d" % (prop_id, os.getpid()))
        if os.path.exists(self.root):
            shutil.rmtree(self.root)
        os.makedirs(self.root)
        self.w = os.path.join(self.root, "w")
        self.sha = {}
        atexit.register(self.cleanup)
        for s in (signal.SIGTERM, signal.SIGINT, signal.SIGHUP):
            signal.signal(s, self._sig)

    def _sig(self, signum, frame):
        self.cleanup()
        os._exit(2)

    def cleanup(self):
        kill_children()
        if os.environ.get("VERIF_KEEP_SCRATCH"):
            return
        shutil.rmtree(self.root, ignore_errors=True)

    def snapshot(self):
        os.makedirs(self.w)
        shutil.copytree(os.path.join(REPO, "src"), os.path.join(self.w, "src"))
        for f in ("Cargo.toml", "Cargo.lock"):
            shutil.copy(os.path.join(REPO, f), os.path.join(self.w, f))
        # sha of the snapshot (the text that is verified)
        for dp, _, fs in os.walk(os.path.join(self.w, "src")):
            for f in fs:
                p = os.path.join(dp, f)
                self.sha[os.path.relpath(p, self.w)] = hashlib.sha256(open(p, "rb").read()).hexdigest()
        # the only Cargo edit: drop the [[bench]] sections (criterion is not needed by Kani)
        ct = open(os.path.join(self.w, "Cargo.toml")).read()
        ct2 = re.sub(r'\[\[bench\]\]\nname = "[A-Za-z0-9_]+"\nharness = false\n', "", ct)
        open(os.path.join(self.w, "Cargo.toml"), "w").write(ct2)
        os.makedirs(os.path.join(self.w, ".cargo"), exist_ok=True)
        open(os.path.join(self.w, ".cargo", "config.toml"), "w").write("[net]\noffline = true\n")

    def overlay(self, overlay, harness_files):
        """overlay: module with MODULES (file, line) and INJECT (file, anchor, lines).
        Only the harness modules listed by the property (plus verif_spec) are compiled in, so that a
        compile problem in one property's harness cannot make another property undecided."""
        originals = {}
        edits = {}
        wanted = set(harness_files) | {"verif_spec.rs"}
        modules = [m for m in overlay.MODULES if m["src"] in wanted]
        injects = [i for i in overlay.INJECT if i.get("needs") is None or i["needs"] in wanted]
        for inj in injects:
            p = os.path.join(self.w, inj["file"])
            if inj["file"] not in edits:
                txt = open(p).read()
                originals[inj["file"]] = txt
                edits[inj["file"]] = txt.split("\n")
            lines = edits[inj["file"]]
            idx = [k for k, l in enumerate(lines) if l.rstrip() == inj["anchor"].rstrip()]
            if "nth" in inj:
                idx = [idx[inj["nth"]]] if len(idx) > inj["nth"] else []
            if len(idx) != 1:
                raise Undecided("lost anchor in %s: %r matches %d lines" % (inj["file"], inj["anchor"], len(idx)))
            k = idx[0]
            # skip upwards over attribute / doc lines so that the contract sits with the other attributes
            indent = re.match(r"\s*", lines[k]).group(0)
            new = [indent + l + " " + MARK for l in inj["lines"]]
            edits[inj["file"]] = lines[:k] + new + lines[k:]
        for m in modules:
            p = os.path.join(self.w, m["file"])
            if m["file"] not in edits:
                txt = open(p).read()
                originals[m["file"]] = txt
                edits[m["file"]] = txt.split("\n")
            lines = edits[m["file"]]
            if lines and lines[-1] == "":
                edits[m["file"]] = lines[:-1] + [m["line"] + " " + MARK, ""]
            else:
                edits[m["file"]] = lines + [m["line"] + " " + MARK]
        for f, lines in edits.items():
            new = "\n".join(lines)
            # byte identity after stripping the marked lines
            stripped = "\n".join(l for l in new.split("\n") if not l.endswith(MARK))
            if stripped != originals[f]:
                raise Undecided("overlay of %s is not add-only (strip check failed)" % f)
            open(os.path.join(self.w, f), "w").write(new)
        # harness files
        hd = os.path.join(self.w, "src", "verif")
        os.makedirs(hd, exist_ok=True)
        for f in os.listdir(os.path.join(VERIF, "harness")):
            if f.endswith(".rs") and f in wanted:
                shutil.copy(os.path.join(VERIF, "harness", f), os.path.join(hd, f))


class Undecided(Exception):
    pass


REPLAY_LOCK = threading.Lock()
_children = set()
_children_lock = threading.Lock()


def kill_children():
    with _children_lock:
        for p in list(_children):
            try:
                os.killpg(p.pid, signal.SIGKILL)
            except Exception:
                pass


def tree_rss_kb(pid):
    """RSS of the whole process group (kB)."""
    total = 0
    try:
        out = subprocess.run(["ps", "-o", "rss=", "-g", str(os.getpgid(pid))], capture_output=True, text=True).stdout
        for l in out.split():
            total += int(l)
    except Exception:
        pass
    return total


def run_cmd(cmd, cwd, env, timeout, mem_gb_cap, log_path):
    """Run in its own process group, kill on timeout / memory cap. Returns (rc, why)."""
    with open(log_path, "w") as lf:
        p = subprocess.Popen(cmd, cwd=cwd, env=env, stdout=lf, stderr=subprocess.STDOUT, start_new_session=True)
    with _children_lock:
        _children.add(p)
    t0 = time.time()
    why = ""
    try:
        while True:
            try:
                p.wait(timeout=2)
                break
            except subprocess.TimeoutExpired:
                pass
            if time.time() - t0 > timeout:
                why = "timeout after %ds" % timeout
            elif tree_rss_kb(p.pid) > mem_gb_cap * 1024 * 1024:
                why = "memory cap %d GB exceeded" % mem_gb_cap
            if why:
                try:
                    os.killpg(p.pid, signal.SIGKILL)
                except Exception:
                    pass
                p.wait()
                break
    finally:
        with _children_lock:
            _children.discard(p)
    return p.returncode, why


# --------------------------------------------------------------------------------------------
# Kani output parsing
# --------------------------------------------------------------------------------------------
CHECK_RE = re.compile(r"^Check (\d+): ([^\n]+)\n\t - Status: (\w+)\n\t - Description: \"(.*?)\"\n\t - Location: ([^\n]*)$", re.M | re.S)


def parse_kani(text):
    checks = []
    for m in CHECK_RE.finditer(text):
        checks.append(dict(n=int(m.group(1)), name=m.group(2), status=m.group(3), desc=" ".join(m.group(4).split()), loc=m.group(5)))
    verdict = None
    m = re.search(r"^VERIFICATION:- (\w+)", text, re.M)
    if m:
        verdict = m.group(1)
    solver = sum(float(x) for x in re.findall(r"Runtime Solver: ([0-9.eE+-]+)s", text))
    solver_dp = sum(float(x) for x in re.findall(r"Runtime decision procedure: ([0-9.eE+-]+)s", text))
    vt = re.search(r"Verification Time: ([0-9.]+)s", text)
    stubs = re.findall(r"^\s*- Stub: (.*)$", text, re.M)
    tail = text[-3000:]
    abnormal = bool(re.search(r"(?i)\bkilled\b|signal|out of memory|CBMC (crashed|failed)|exit status: 137|status 137|appears to have run out of memory", tail))
    return dict(checks=checks, verdict=verdict, solver_s=max(solver, solver_dp), vtime=float(vt.group(1)) if vt else None,
                stubs=stubs, abnormal=abnormal)


def base_env(target_dir):
    env = dict(os.environ)
    env["CARGO_NET_OFFLINE"] = "true"
    env["CARGO_TARGET_DIR"] = target_dir
    env.pop("RUSTFLAGS", None)
    return env


class Runner:
    def __init__(self, scratch, prop, tier):
        self.s = scratch
        self.prop = prop
        self.tier = tier
        self.logs = os.path.join(scratch.root, "logs")
        os.makedirs(self.logs, exist_ok=True)
        self.td_lock = threading.Lock()
        self.free_tds = []
        self.n_td = 0

    def get_td(self):
        with self.td_lock:
            if self.free_tds:
                return self.free_tds.pop()
            self.n_td += 1
            return os.path.join(self.s.root, "td%d" % self.n_td)

    def put_td(self, td):
        with self.td_lock:
            self.free_tds.append(td)

    def kani_cmd(self, unit, playback=False):
        cmd = ["cargo", "kani"] + KANI_FLAGS
        if playback:
            cmd += ["-Z", "concrete-playback", "--concrete-playback=print"]
        cmd += ["--harness", unit.harness, "--exact"]
        if unit.kind in ("must_panic", "witness"):
            # the call deliberately violates the injected `requires`; only the code's own guard is under test
            cmd.append("--no-assert-contracts")
        for a in unit.extra.get("kani_args", []):
            cmd.append(a)
        return cmd

    def run_unit(self, unit):
        r = Result(unit)
        if unit.engine == "z3":
            return self.run_z3(unit, r)
        if unit.engine == "verus":
            return self.run_verus(unit, r)
        td = self.get_td()
        t0 = time.time()
        lp = os.path.join(self.logs, unit.name + ".log")
        r.log_path = lp
        try:
            rc, why = run_cmd(self.kani_cmd(unit), self.s.w, base_env(td), unit.timeout, max(unit.mem_gb * 3, 12), lp)
            r.wall = time.time() - t0
            text = open(lp, errors="replace").read()
            if why:
                if unit.kind == "search":
                    r.status, r.reason = "inconclusive", "time-bounded refutation search found nothing in %ds (not a proof)" % unit.timeout
                else:
                    r.status, r.reason = "undecided", why
                return r
            pk = parse_kani(text)
            r.solver_s = pk["solver_s"]
            r.stubs = pk["stubs"]
            if pk["verdict"] is None:
                if re.search(r"error(\[E\d+\])?:", text):
                    errs = re.findall(r"^error.*$", text, re.M)[:3]
                    r.status, r.reason = "undecided", "compile/tool error: " + " | ".join(errs)
                else:
                    r.status, r.reason = "undecided", "no verdict from kani (rc=%s)" % rc
                return r
            self.triage(unit, r, pk, td)
            return r
        finally:
            self.put_td(td)

    # ----------------------------------------------------------------------------------------
    def triage(self, unit, r, pk, td):
        checks = pk["checks"]
        covers = [c for c in checks if c["status"] in ("SATISFIED", "UNSATISFIABLE") or ".cover." in c["name"]]
        asserts = [c for c in checks if c not in covers]
        r.checks = len(asserts)
        r.covers = {c["desc"]: c["status"] for c in covers}
        failed = [c for c in asserts if c["status"] == "FAILURE"]
        undet = [c for c in asserts if c["status"] == "UNDETERMINED"]
        unwind_fail = [c for c in failed if "unwinding assertion" in c["desc"]]
        unsupported = [c for c in failed if "is not currently supported by Kani" in c["desc"] or "unsupported" in c["desc"].lower()]
        r.failed = [dict(name=c["name"], desc=c["desc"], loc=c["loc"]) for c in failed]
        if r.checks == 0:
            r.status, r.reason = "undecided", ("verifier back end terminated abnormally (killed / out of memory): no obligation reported" if pk.get("abnormal") else "zero obligations generated (vacuous harness)")
            return
        if unwind_fail:
            r.status, r.reason = "undecided", "unwinding assertion failed (bound too small): " + unwind_fail[0]["loc"]
            return
        if unsupported:
            r.status, r.reason = "undecided", "unsupported construct reached: " + unsupported[0]["desc"]
            return
        bad_covers = [d for d, s in r.covers.items() if s != "SATISFIED"]

        if unit.kind in ("proof", "search"):
            if failed:
                r.status = "violation"
                r.reason = "obligation failed: " + "; ".join(sorted(set(c["desc"] for c in failed))[:4])
                self.replay(unit, r, td)
            elif undet:
                r.status, r.reason = "undecided", "undetermined checks: " + undet[0]["desc"]
            elif pk["verdict"] != "SUCCESSFUL":
                r.status, r.reason = "undecided", "kani verdict %s without failed check" % pk["verdict"]
            elif bad_covers and not unit.extra.get("covers_optional"):
                r.status, r.reason = "undecided", "cover not satisfied (harness partly vacuous): " + "; ".join(bad_covers[:3])
            else:
                r.status = "discharged"
        elif unit.kind == "canary":
            exp = unit.extra.get("canary_desc", "CANARY")
            hit = [c for c in failed if exp in c["desc"]]
            if hit:
                r.status = "discharged"
                r.reason = "canary failed as it must (preconditions are satisfiable)"
            else:
                r.status, r.reason = "undecided", "canary did not fail: preconditions vacuous or claim not reached"
        elif unit.kind == "must_panic":
            marker = [c for c in asserts if "MUST_PANIC" in c["desc"]]
            if not marker:
                r.status, r.reason = "undecided", "must-panic marker assertion not found in output"
                return
            other = [c for c in failed if "MUST_PANIC" not in c["desc"]
                     and not any(re.search(p, c["desc"]) for p in unit.allowed_fail)]
            reached = [c for c in marker if c["status"] == "FAILURE"]
            panics = [c for c in failed if any(re.search(p, c["desc"]) for p in unit.allowed_fail)]
            if reached:
                r.status = "violation"
                r.reason = "call returned normally on an input that must be rejected by a panic"
                self.replay(unit, r, td)
            elif other:
                r.status = "violation"
                r.reason = "panic outside the documented guard: " + other[0]["desc"]
                self.replay(unit, r, td)
            elif not panics:
                r.status, r.reason = "undecided", "no guard assertion failed: harness vacuous"
            elif bad_covers and not unit.extra.get("covers_optional"):
                r.status, r.reason = "undecided", "cover not satisfied: " + "; ".join(bad_covers[:3])
            else:
                r.status = "discharged"
                r.reason = "every path panics in the guard (%d guard checks fail, marker unreachable)" % len(panics)
        elif unit.kind == "witness":
            if failed:
                r.status = "known"
                r.reason = "; ".join(sorted(set(c["desc"] for c in failed))[:2])
            else:
                r.status = "discharged"
                r.reason = "known finding no longer reproduces"

    # ----------------------------------------------------------------------------------------
    def replay(self, unit, r, td):
        """Phase 1 (in the worker): ask the verifier for concrete counterexamples (playback tests)."""
        os.makedirs(os.path.join(VERIF, "replays"), exist_ok=True)
        rp = os.path.join(VERIF, "replays", "%s-%s-%d.txt" % (self.prop, unit.name, int(time.time())))
        r.replay = rp
        out = ["property: %s" % self.prop, "unit: %s" % unit.name, "harness: %s" % unit.harness,
               "functions under contract: %s" % ", ".join(unit.fns), "claim: %s" % unit.claim,
               "failed obligation(s):"]
        for f in r.failed:
            out.append("  - %s @ %s" % (f["desc"], f["loc"]))
        lp = os.path.join(self.logs, unit.name + ".playback.log")
        rc, why = run_cmd(self.kani_cmd(unit, playback=True), self.s.w, base_env(td), unit.timeout + 120,
                          max(unit.mem_gb * 3, 12), lp)
        text = open(lp, errors="replace").read()
        tests = []
        seen = set()
        for blk in re.findall(r"```\n(.*?)```", text, re.S):
            if "concrete_playback_run" not in blk or "Check for `cover`" in blk:
                continue
            k = blk.find("#[test]")
            if k >= 0:
                what = " ".join(blk[:k].replace("///", " ").split())
                if unit.kind == "must_panic" and "MUST_PANIC" not in what and any(re.search(p_, what) for p_ in unit.allowed_fail):
                    continue  # the documented guard firing is the expected behaviour, not a counterexample
                m = re.search(r"fn (kani_concrete_playback_\w+)", blk)
                if m and m.group(1) not in seen:
                    seen.add(m.group(1))
                    tests.append("// " + what + "\n" + blk[k:])
        r.reproduced = False
        r._replay_head = out
        r._replay_tests = tests
        r._replay_why = why

    def replay_native(self, r):
        """Phase 2 (sequential, after all units): run the playback tests natively on the real code."""
        unit = r.unit
        out = r._replay_head
        tests = r._replay_tests
        if tests and unit.extra.get("no_native"):
            out.append("")
            out.append("counterexample(s) from the verifier (NOT run natively: this unit replaces a real callee by its contract stub, so a native run would exercise different code):")
            out += tests
        elif tests and getattr(r, "_skip_native", False):
            out.append("")
            out.append("counterexample(s) from the verifier (native run skipped: more than VERIF_MAX_REPLAYS violations in this run):")
            out += tests
        elif tests:
            mod_file = self.harness_file(unit)
            bak = open(mod_file).read()
            open(mod_file, "w").write(bak + "\n" + "\n".join(tests) + "\n")
            lp2 = os.path.join(self.logs, unit.name + ".native.log")
            td = os.path.join(self.s.root, "td-native")
            env = base_env(td)
            env["RUST_BACKTRACE"] = "0"
            rc2, why2 = run_cmd(["cargo", "kani", "playback", "-Z", "concrete-playback", "--", "kani_concrete_playback"],
                                self.s.w, env, 1800, 16, lp2)
            native_out = open(lp2, errors="replace").read()
            open(mod_file, "w").write(bak)
            if why2:
                out.append("native replay did not finish: " + why2)
            k0 = native_out.find("\nrunning ")
            native_out = native_out[k0:] if k0 >= 0 else native_out[-3000:]
            m = re.search(r"test result: (\w+)\. (\d+) passed; (\d+) failed", native_out)
            if m and int(m.group(3)) > 0:
                r.reproduced = True
            out.append("")
            out.append("counterexample(s) from the verifier, as concrete playback tests:")
            out += tests
            out.append("")
            out.append("native replay on the real code (cargo kani playback; real libm, stubs inactive, debug profile):")
            keep = [l for l in native_out.split("\n") if l.strip() and not l.startswith("note:") and "RUST_BACKTRACE" not in l]
            out += keep[:120]
            out.append("reproduced natively: %s" % r.reproduced)
        else:
            out.append("")
            out.append("no concrete counterexample could be extracted (%s)" % (r._replay_why or "verifier printed none"))
        if not r.reproduced:
            out.append("")
            out.append("no-failing-input-found: the obligation is discharged on the unchanged tree and fails on this tree;")
            out.append("verifier output (tail):")
            out += open(r.log_path, errors="replace").read().split("\n")[-60:]
        open(r.replay, "w").write("\n".join(out) + "\n")

    def harness_file(self, unit):
        # harness a::b::verif_x::name lives in src/verif/verif_x.rs
        parts = unit.harness.split("::")
        for p in parts:
            f = os.path.join(self.s.w, "src", "verif", p + ".rs")
            if os.path.exists(f):
                return f
        return None

    # ----------------------------------------------------------------------------------------
    def run_z3(self, unit, r):
        t0 = time.time()
        lp = os.path.join(self.logs, unit.name + ".log")
        r.log_path = lp
        f = os.path.join(VERIF, unit.harness)
        rc, why = run_cmd(["z3", "-T:%d" % unit.timeout, f], VERIF, dict(os.environ), unit.timeout + 10, 8, lp)
        r.wall = time.time() - t0
        text = open(lp).read()
        res = [l.strip() for l in text.split("\n") if l.strip() in ("sat", "unsat", "unknown")]
        exp = unit.extra.get("expect", ["unsat"])
        r.checks = len(exp)
        if why or "unknown" in res or len(res) != len(exp):
            r.status, r.reason = "undecided", why or ("z3 answered %s" % res)
        elif res == exp:
            r.status = "discharged"
        else:
            r.status, r.reason = "undecided", "lemma file answered %s, expected %s (lemma is about arithmetic, not code)" % (res, exp)
        return r

    def run_verus(self, unit, r):
        from verus_extract import run_verus_unit  # lazy
        return run_verus_unit(self, unit, r)


# --------------------------------------------------------------------------------------------
def schedule(runner, units, jobs, mem_total_gb=52):
    results = {}
    lock = threading.Lock()
    pending = sorted(units, key=lambda u: -u.timeout)
    running = {}
    cond = threading.Condition(lock)

    def work(u):
        try:
            res = runner.run_unit(u)
        except Exception as e:  # never let a tool problem look like a verdict
            res = Result(u)
            res.status, res.reason = "undecided", "driver exception: %r" % (e,)
        with cond:
            results[u.name] = res
            del running[u.name]
            log("  [%-10s] %-44s %6.1fs  %s" % (res.status, u.name, res.wall, res.reason[:140]))
            cond.notify_all()

    with cond:
        while pending or running:
            started = False
            for u in list(pending):
                used = sum(x.mem_gb for x in running.values())
                if len(running) < jobs and (used + u.mem_gb <= mem_total_gb or not running):
                    pending.remove(u)
                    running[u.name] = u
                    threading.Thread(target=work, args=(u,), daemon=True).start()
                    started = True
            if not started:
                cond.wait(timeout=5)
    return [results[u.name] for u in units]


# --------------------------------------------------------------------------------------------
def load_module(path, name):
    spec = importlib.util.spec_from_file_location(name, path)
    m = importlib.util.module_from_spec(spec)
    spec.loader.exec_module(m)
    return m


def scan_trusted(prop_mod):
    """Mechanical scan of assumptions in the harness files used by this property."""
    found = []
    pats = [r"kani::assume", r"#\[kani::stub\(", r"kani::stub_verified", r"external_body", r"assume_specification",
            r"\badmit\(", r"#\[verifier::", r"unsafe "]
    for f in getattr(prop_mod, "HARNESS_FILES", []):
        p = os.path.join(VERIF, "harness", f)
        if not os.path.exists(p):
            continue
        txt = open(p).read()
        for pat in pats:
            n = len(re.findall(pat, txt))
            if n:
                found.append("%s: %d x %s" % (f, n, pat.replace("\\", "")))
    return found


def main(argv):
    import argparse
    ap = argparse.ArgumentParser()
    ap.add_argument("prop")
    ap.add_argument("--tier", default=os.environ.get("VERIF_TIER", "quick"))
    ap.add_argument("--only", default=None, help="regex on unit names (debugging; evidence is marked partial)")
    ap.add_argument("--jobs", type=int, default=int(os.environ.get("VERIF_JOBS", "14")))
    ap.add_argument("--replay", default=None)
    a = ap.parse_args(argv)
    prop = a.prop
    tier = "thorough" if a.tier.startswith("t") else "quick"
    seed = int(os.environ.get("VERIF_SEED", "0") or 0)
    t_start = time.time()

    if a.replay:
        sys.stdout.write(open(a.replay).read())
        return 0

    sys.path.insert(0, os.path.join(VERIF, "lib"))
    pm = load_module(os.path.join(VERIF, "props", prop + ".py"), "prop_" + prop)
    overlay = load_module(os.path.join(VERIF, "contracts", "overlay.py"), "overlay")
    units = [u for u in pm.units() if tier in u.tiers]
    if a.only:
        units = [u for u in units if re.search(a.only, u.name)]
    kf = json.load(open(os.path.join(VERIF, "known_findings.json")))

    log("== %s tier=%s units=%d repo=%s" % (prop, tier, len(units), REPO))
    sc = Scratch(prop)
    results = []
    fatal = None
    try:
        sc.snapshot()
        sc.overlay(overlay, getattr(pm, 'HARNESS_FILES', []))
        runner = Runner(sc, prop, tier)
        results = schedule(runner, units, a.jobs)
        todo = [r for r in results if r.status == "violation" and r.replay and r.unit.engine == "kani"]
        # native replays: sequential, at most VERIF_MAX_REPLAYS (default 3) per run, the others keep the verifier output
        for k, r in enumerate(todo):
            if k < int(os.environ.get("VERIF_MAX_REPLAYS", "3")):
                log("  native replay of %s ..." % r.unit.name)
                runner.replay_native(r)
            else:
                r._skip_native = True
                runner.replay_native(r)
    except Undecided as e:
        fatal = str(e)
        log("UNDECIDED: %s" % fatal)

    # ---------------- verdict
    # A Verus failure carries no counterexample: it may mean "the proof hints no longer fit" on a correct rewrite. Where a
    # unit names a TWIN (a loop-free full-domain Kani proof of the same contract, complete and replayable) that ran in this run:
    # twin discharged => the Verus failure is a lost proof, not a violation (undecided); twin failed => the twin reports it.
    by_name = {r.unit.name: r for r in results}
    for r in results:
        tw = r.unit.extra.get("twin")
        if r.status == "violation" and r.unit.engine == "verus" and tw and tw in by_name:
            if by_name[tw].status == "discharged":
                r.status = "undecided"
                r.reason = "verus proof no longer goes through (%s) but the complete loop-free Kani twin %s verifies the same contract on this tree: proof hints lost, not a violation" % (r.reason[:160], tw)
    viol = [r for r in results if r.status == "violation"]
    und = [r for r in results if r.status == "undecided"]
    known = [r for r in results if r.status == "known"]
    dis = [r for r in results if r.status == "discharged"]
    exit_code = 0
    for r in known:
        ent = [k for k in kf.get("findings", []) if k.get("id") == r.unit.known_finding and k.get("status") == "open"]
        if ent:
            log("KNOWN-FINDING: property=%s %s" % (prop, ent[0]["what"]))
        else:
            # a witness that fails without an open entry is a violation like any other
            r.status = "violation"
            viol.append(r)
    for r in viol:
        tail = "" if r.reproduced else " no-failing-input-found"
        rp = r.replay
        if not rp:
            os.makedirs(os.path.join(VERIF, "replays"), exist_ok=True)
            rp = os.path.join(VERIF, "replays", "%s-%s-%d.txt" % (prop, r.unit.name, int(time.time())))
            open(rp, "w").write("property: %s\nunit: %s\nobligation: %s\nreason: %s\n" % (prop, r.unit.name, r.unit.claim, r.reason))
            tail = " no-failing-input-found"
        log("VIOLATION property=%s replay=%s unit=%s obligation=%s%s" % (
            prop, rp, r.unit.name, json.dumps(r.reason[:200]), tail))
        exit_code = 1
    if not results and not fatal:
        fatal = "no unit selected: nothing was checked"
    if exit_code == 0 and (und or fatal):
        exit_code = 2
        for r in und:
            log("UNDECIDED unit=%s: %s" % (r.unit.name, r.reason))

    # ---------------- evidence
    wall = time.time() - t_start
    level_all_p = all(u.level == "P" for u in units) and not a.only
    obligations = [r for r in results if r.unit.kind in ("proof", "must_panic") or (r.unit.kind == "search" and r.status == "discharged")]
    n_obl = len(obligations)
    n_dis = len([r for r in obligations if r.status == "discharged"])
    declared_level = getattr(pm, "LEVEL", "other")
    level = declared_level if (declared_level != "proof" or level_all_p) else "other"
    samples = []
    for r in results[:400]:
        samples.append(dict(unit=r.unit.name, harness=r.unit.harness, functions_under_contract=r.unit.fns,
                            obligation=r.unit.claim, kind=r.unit.kind, level=r.unit.level, bound=r.unit.bound,
                            domain=r.unit.domain, status=r.status, reason=r.reason, checks=r.checks,
                            covers=r.covers, backend=("z3" if r.unit.engine == "z3" else
                                                      "verus+z3" if r.unit.engine == "verus" else "kani0.68/cbmc6.11+cadical"),
                            wall_s=round(r.wall, 2), solver_s=round(r.solver_s, 2), stubs=r.stubs))
    trusted = list(getattr(pm, "TRUSTED_BASE", [])) + scan_trusted(pm)
    cov = dict(
        obligations=n_obl,
        discharged=n_dis,
        checker_cmd="cargo kani -Z function-contracts -Z stubbing -Z unstable-options --harness <unit> --exact  (on a scratch copy of /repo's working tree with the contract overlay; driver: bin/check %s --tier %s)" % (prop, tier),
        trusted_base=trusted,
        explanation=(getattr(pm, "EXPLANATION", "") or getattr(pm, "MANIFEST", {}).get("text", "") or "see DESIGN.md section 9") + " | units: %d proved for their stated domain, %d bounded, %d time-bounded searches (inconclusive ones decide nothing)" % (
            len([r for r in obligations if r.status == "discharged" and r.unit.level == "P"]), len([r for r in obligations if r.status == "discharged" and r.unit.level == "B"]), len([r for r in results if r.unit.kind == "search"])),
        proved_units=[r.unit.name for r in obligations if r.status == "discharged" and r.unit.level == "P"],
        bounded_units=[dict(unit=r.unit.name, bound=r.unit.bound) for r in obligations if r.status == "discharged" and r.unit.level == "B"],
        vacuity_guards=[dict(unit=r.unit.name, status=r.status) for r in results if r.unit.kind == "canary"],
        cbmc_checks_total=sum(r.checks for r in results),
        covers_total=sum(len(r.covers) for r in results),
        covers_satisfied=sum(1 for r in results for s in r.covers.values() if s == "SATISFIED"),
        solver_s_total=round(sum(r.solver_s for r in results), 1),
        functions_under_contract=sorted(set(f for r in results for f in r.unit.fns)),
        source_sha256=sc.sha,
        undecided=[dict(unit=r.unit.name, reason=r.reason) for r in und],
        time_bounded_refutation_searches=[dict(unit=r.unit.name, obligation=r.unit.claim, budget_s=r.unit.timeout, outcome=r.status) for r in results if r.unit.kind == "search"],
        known_findings=[dict(unit=r.unit.name, id=r.unit.known_finding) for r in known if r.status == "known"],
        partial_run=bool(a.only),
        fatal=fatal,
        samples=samples,
        exhaustive=False,
    )
    ev = dict(property_id=prop, tier=tier, seed=seed, level=level, coverage=cov,
              assumptions=list(getattr(pm, "ASSUMPTIONS", [])), wall_s=round(wall, 1), violations=len(viol))
    # experiments on scratch copies (seeds, mutations) must not overwrite the committed evidence: VERIF_EVIDENCE_DIR
    evd = os.environ.get("VERIF_EVIDENCE_DIR") or os.path.join(VERIF, "evidence")
    os.makedirs(evd, exist_ok=True)
    with open(os.path.join(evd, prop + ".json"), "w") as f:
        json.dump(ev, f, indent=1)
    log("== %s: %d/%d obligations discharged, %d violation(s), %d undecided, %.0fs -> exit %d" % (
        prop, n_dis, n_obl, len(viol), len(und), wall, exit_code))
    sc.cleanup()
    return exit_code


if __name__ == "__main__":
    sys.exit(main(sys.argv[1:]))
