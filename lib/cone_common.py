from driver import Unit
HARNESS_FILES = ["verif_cone.rs", "verif_bmoc.rs", "verif_c16.rs"]
P = "nested::verif_cone::"
both = ("quick", "thorough"); th = ("thorough",)
REC = ["Layer::cone_coverage_approx_recur", "(tag stub) nested::get_or_create + Layer::center", "(contract stub) BMOCBuilderUnsafe::{new,push}"]
TRUSTED_BASE = ["Kani 0.68 / CBMC 6.11", "ghost builder tracker (C08)", "abstract distance table standing for shs_computer(center(cell))"]
def recur_units():
    return [Unit("cone_recur_delta%d" % k, P + "cone_recur_delta%d" % k, REC,
                 "descent contract, start depth 0..5, requested depth = start + %d, EVERY assignment of centre distances (21-cell tree) and thresholds: a deepest cell is full iff some level had distance <= min, partial iff it reached the requested depth with min < distance <= max, absent otherwise; children visited in z-order; threshold index = recursion level" % k,
                 timeout=900, level="B", bound="depth difference %d" % k, extra=dict(no_native=True)) for k in (0, 1, 2)]
def full_flag_unit():
    return Unit("cone_full_only_if_radius_ge_cell", P + "cone_full_only_if_radius_ge_cell", ["to_shs_min_max_array", "to_shs_min_max", "to_squared_half_segment"],
                "per recursion level (3 levels, any cell sizes in [0,0.85], any radius in (0,pi]): the test `shs <= min` cannot succeed for ANY shs >= 0 (0 included) when the radius is below the cell size", timeout=600, level="P", extra=dict(no_native=True))
def threshold_unit():
    return Unit("cone_thresholds_contract", P + "cone_thresholds_contract", ["to_shs_min_max_array", "to_shs_min_max", "to_squared_half_segment", "(assumed monotone) f64::sin"],
                "for 0 < r <= pi, 0 <= d <= 0.85 and every distance a in [0,pi]: a <= r+d => shs(a) <= max; a <= r-d => shs(a) <= min; min <= max; r < d => min == 0 (sin replaced by a memoised function increasing on [0,pi/2], arbitrary beyond); time-bounded refutation search (two double products: proof does not finish)",
                kind="search", timeout=240, extra=dict(no_native=True))

def threshold_struct_unit():
    return Unit("cone_thresholds_struct", P + "cone_thresholds_struct", ["to_shs_min_max_array", "to_shs_min_max", "(contract stub: even, increasing on [0,pi], arbitrary beyond) to_squared_half_segment"],
                "for 0 < r <= pi, 0 <= d <= 0.85 and every distance a in [0,pi]: a <= r+d => shs(a) <= max (also when r+d > pi: the argument must be clamped); a <= r-d => shs(a) <= min; r >= d => min <= max -- against the monotonicity contract of to_squared_half_segment, product-free",
                timeout=600, level="P", extra=dict(no_native=True))

def allsky_units():
    return [Unit("cone_allsky_d%02d" % d, P + "cone_allsky_d%02d" % d, ["Layer::cone_coverage_approx_internal", "Layer::allsky_bmoc_builder", "(contract stub) BMOCBuilderUnsafe::{new,push_all}"],
                 "depth %d, every radius >= pi (and any centre): the builder receives exactly the 12 full base cells: every cell of the sphere covered once, full" % d, timeout=600, level="B", bound="depth %d" % d, extra=dict(no_native=True)) for d in (0, 3, 29)]
