"""Verus units: mechanical extraction of real functions from the snapshot of /repo into ONE Verus file.

For every function listed in a spec module (contracts/verus_<x>.py):
  * the function text (signature line .. matching closing brace) is cut out of the snapshot verbatim;
  * the contract (requires / ensures) is inserted between the signature and the body;
  * ghost lines (proof blocks, assertions) are inserted BEFORE exactly-matching anchor lines of the body
    (add-only: every inserted line ends with the marker `// @verif`; stripping the marked lines must give
    back the extracted text byte for byte, otherwise the unit is undecided);
  * textual rewrites (each: exact old text that must occur exactly once, new text, stated reason) are the
    ONLY places where the verified text differs from the code that runs; they are listed in the evidence.
A lost signature / anchor / rewrite site => Undecided (exit 2), never a violation.
"""
import os, re, json, time, subprocess, importlib.util

MARK = "// @verif"
VERIF = os.path.dirname(os.path.dirname(os.path.abspath(__file__)))


class Lost(Exception):
    pass


def cut_fn(text, sig):
    """return the text of the item starting at the line equal to `sig` (stripped compare) up to its matching brace"""
    lines = text.split("\n")
    idx = [k for k, l in enumerate(lines) if l.strip() == sig.strip()]
    if len(idx) != 1:
        raise Lost("signature %r matches %d lines" % (sig, len(idx)))
    k = idx[0]
    depth = 0
    out = []
    started = False
    for l in lines[k:]:
        out.append(l)
        code = re.sub(r"//.*$", "", l)
        for ch in code:
            if ch == "{":
                depth += 1
                started = True
            elif ch == "}":
                depth -= 1
        if started and depth == 0:
            return out
    raise Lost("no matching brace for %r" % sig)


def build(spec, src_root):
    """returns (verus_text, dropped) ; raises Lost"""
    parts = [spec.PREAMBLE]
    dropped = list(getattr(spec, "DROPPED", []))
    for g in getattr(spec, "GUARDS", []):
        t = "\n".join(cut_fn(open(os.path.join(src_root, g["file"])).read(), g["sig"]))
        if g["must_contain"] not in t:
            raise Lost("guarded helper %r no longer contains %r" % (g["sig"], g["must_contain"]))
    for f in spec.FUNCTIONS:
        text = open(os.path.join(src_root, f["file"])).read()
        lines = cut_fn(text, f["sig"])
        if f.get("kind") == "struct":
            parts.append("// ---- extracted verbatim from %s: %s\n%s" % (f["file"], f["name"], "\n".join(lines)))
            continue
        body = "\n".join(lines)
        for rw in f.get("rewrites", []):
            if body.count(rw["old"]) != rw.get("count", 1):
                raise Lost("rewrite site %r occurs %d times in %s" % (rw["old"], body.count(rw["old"]), f["sig"]))
            body = body.replace(rw["old"], rw["new"])
            dropped.append("%s: `%s` -> `%s` (%s)" % (f["name"], rw["old"], rw["new"], rw["why"]))
        rewritten = body
        lines = body.split("\n")
        # contract between signature and body: signature line must end with '{'
        if not lines[0].rstrip().endswith("{"):
            raise Lost("signature line of %s does not end with '{'" % f["name"])
        sig_line = lines[0].rstrip()[:-1].rstrip()
        if f.get("ret"):  # name the return value:  -> T   =>  -> (r: T)
            m = re.search(r"->\s*(.+)$", sig_line)
            if not m:
                raise Lost("no return type in %s" % f["sig"])
            sig_line = sig_line[:m.start()] + "-> (%s: %s)" % (f["ret"], m.group(1).strip())
        if f.get("drop_pub"):
            if not sig_line.lstrip().startswith("pub fn "):
                raise Lost("expected a pub fn: %s" % f["sig"])
            sig_line = sig_line.replace("pub fn ", "fn ", 1)
            dropped.append("%s: visibility `pub` not copied (its contract mentions the private struct HashParts)" % f["name"])
        new = [sig_line + " " + MARK] + ["  " + c + " " + MARK for c in f.get("contract", [])] + ["{ " + MARK]
        rest = lines[1:]
        for g in f.get("ghost", []):
            if g.get("at") == "start":  # top of the body: independent of the body text
                rest = ["    " + x + " " + MARK for x in g["lines"]] + rest
                continue
            if g.get("prefix"):
                idx = [k for k, l in enumerate(rest) if l.strip().startswith(g["before"].strip()) and not l.endswith(MARK)]
            else:
                idx = [k for k, l in enumerate(rest) if l.strip() == g["before"].strip() and not l.endswith(MARK)]
            if "nth" in g and "of" in g:
                if len(idx) != g["of"]:
                    raise Lost("ghost anchor %r matches %d lines in %s (expected %d)" % (g.get("before"), len(idx), f["name"], g["of"]))
                idx = [idx[g["nth"]]]
            if len(idx) != 1:
                raise Lost("ghost anchor %r matches %d lines in %s" % (g.get("before"), len(idx), f["name"]))
            k = idx[0]
            rest = rest[:k] + ["    " + x + " " + MARK for x in g["lines"]] + rest[k:]
        # add-only check
        stripped = [l for l in rest if not l.endswith(MARK)]
        if "\n".join([rewritten.split("\n")[0]] + stripped) != rewritten:
            raise Lost("annotation of %s is not add-only" % f["name"])
        wrapper = f.get("wrap")
        txt = "\n".join(new + rest)
        if wrapper:
            txt = wrapper[0] + "\n" + txt + "\n" + wrapper[1]
        parts.append("// ---- extracted from %s: %s\n%s" % (f["file"], f["name"], txt))
    parts.append(spec.POSTAMBLE)
    return "\n\n".join(parts), dropped


def load_spec(name):
    p = os.path.join(VERIF, "contracts", name + ".py")
    sp = importlib.util.spec_from_file_location(name, p)
    m = importlib.util.module_from_spec(sp)
    sp.loader.exec_module(m)
    return m


def run_verus_unit(runner, unit, r):
    t0 = time.time()
    spec = load_spec(unit.extra["spec"])
    lp = os.path.join(runner.logs, unit.name + ".log")
    r.log_path = lp
    try:
        text, dropped = build(spec, runner.s.w)
    except Lost as e:
        r.status, r.reason = "undecided", "lost anchor (verus extraction): %s" % e
        open(lp, "w").write(r.reason + "\n")
        return r
    if unit.kind == "canary":
        text = text.replace("// @CANARY", spec.CANARY)
    d = os.path.join(runner.s.root, "verus-" + unit.name)
    os.makedirs(d, exist_ok=True)
    f = os.path.join(d, "extracted.rs")
    open(f, "w").write(text)
    keep = os.path.join(os.environ.get("VERIF_EVIDENCE_DIR") or os.path.join(VERIF, "evidence"), "verus")
    os.makedirs(keep, exist_ok=True)
    if unit.kind != "canary":
        open(os.path.join(keep, unit.name + ".extracted.rs"), "w").write(text)
    # A successful z3 run is a proof whatever its random seed; a failing run may be solver instability.
    # So: a failure is re-tried with two other seeds and only a failure under all three is reported.
    attempts = []
    for sd in (0, 7, 42):
        cmd = ["verus", f, "--output-json", "--time", "--rlimit", str(unit.extra.get("rlimit", 60)), "--multiple-errors", "8"]
        if sd:
            cmd += ["--smt-option", "smt.random_seed=%d" % sd, "--smt-option", "sat.random_seed=%d" % sd]
        try:
            p = subprocess.run(cmd, cwd=d, stdout=subprocess.PIPE, stderr=subprocess.PIPE, timeout=unit.timeout, text=True)
            out, err, rc = p.stdout, p.stderr, p.returncode
        except subprocess.TimeoutExpired:
            r.status, r.reason = "undecided", "verus timeout after %ds" % unit.timeout
            return r
        attempts.append(sd)
        try:
            ok = json.loads(out).get("verification-results", {}).get("success", False)
        except Exception:
            ok = False
        if ok or unit.kind == "canary":
            break
    r.attempt_seeds = attempts
    open(lp, "w").write(out + "\n==== stderr ====\n" + err)
    r.wall = time.time() - t0
    r.stubs = dropped
    try:
        js = json.loads(out)
    except Exception:
        r.status, r.reason = "undecided", "verus produced no JSON (rc=%s): %s" % (rc, err[-300:])
        return r
    vr = js.get("verification-results", {})
    nver, nerr = vr.get("verified", 0), vr.get("errors", 0)
    r.checks = nver + nerr
    tm = js.get("times-ms", {})
    r.solver_s = (tm.get("smt", {}).get("total", 0) if isinstance(tm.get("smt"), dict) else 0) / 1000.0
    errs = re.findall(r"^error(?:\[E\d+\])?: (.*)$", err, re.M)
    errs = [e for e in errs if not e.startswith("aborting")]
    tool = [e for e in errs if re.search(r"not supported|unsupported|cannot find|mismatched types|expected|unresolved|rlimit|Resource limit", e)]
    if not vr.get("success", False) and nerr == 0:
        r.status, r.reason = "undecided", "verus did not reach verification (compile/tool error): " + " | ".join(errs[:3])
        return r
    if r.checks == 0:
        r.status, r.reason = "undecided", "zero obligations generated"
        return r
    if unit.kind == "canary":
        if nerr > 0 and "CANARY" in err:
            r.status, r.reason = "discharged", "canary failed as it must (contracts are satisfiable)"
        else:
            r.status, r.reason = "undecided", "canary did not fail: preconditions vacuous"
        return r
    if nerr == 0:
        r.status = "discharged"
        r.reason = "%d verus items verified (%s)" % (nver, ", ".join(x["name"] for x in spec.FUNCTIONS))
        return r
    if tool:
        r.status, r.reason = "undecided", "verus tool limit: " + " | ".join(tool[:3])
        return r
    # a failed obligation: name it (verus prints the failing clause with its location in extracted.rs)
    r.status = "violation"
    fails = []
    for m in re.finditer(r"^error: (.*)\n\s*--> ([^\n]*)\n((?:.*\n){0,8})", err, re.M):
        fails.append(dict(desc=m.group(1), loc=m.group(2), ctx=m.group(3)))
    r.failed = [dict(name="verus", desc=x["desc"], loc=x["loc"]) for x in fails]
    r.reason = "verus obligation failed: " + "; ".join(sorted(set(x["desc"] for x in fails))[:4])
    os.makedirs(os.path.join(VERIF, "replays"), exist_ok=True)
    rp = os.path.join(VERIF, "replays", "%s-%s-%d.txt" % (runner.prop, unit.name, int(time.time())))
    o = ["property: %s" % runner.prop, "unit: %s" % unit.name, "engine: verus (single file, functions extracted from the working tree)",
         "functions under contract: %s" % ", ".join(unit.fns), "claim: %s" % unit.claim, "failed obligation(s):"]
    for x in fails:
        o.append("  - %s @ %s" % (x["desc"], x["loc"]))
        o += ["      " + l for l in x["ctx"].rstrip("\n").split("\n")]
    o += ["", "no-failing-input-found: Verus gives no counterexample; the obligation is discharged on the unchanged tree and fails on this tree.",
          "verifier output:", err[-6000:]]
    open(rp, "w").write("\n".join(o) + "\n")
    r.replay = rp
    r.reproduced = False
    r._verus = True
    return r
