from driver import Unit
HARNESS_FILES = ["verif_bmoc.rs"]
P = "nested::bmoc::verif_bmoc::"
both = ("quick", "thorough"); th = ("thorough",)
OPS = {"and": ["BMOC::and"], "or": ["BMOC::or", "BMOC::not_in_cell_4_or", "consume_while_overlapped", "consume_while_overlapped_and_partial", "is_in"],
       "xor": ["BMOC::xor", "BMOC::not_in_cell_4_xor", "consume_while_overlapped", "is_in"], "not": ["BMOC::not", "dd_4_go_up"]}
STUBS = ["(contract stub) BMOCBuilderUnsafe::{new,push,push_raw_unsafe,to_bmoc,to_bmoc_packing}", "(contract stub) go_up", "(contract stub) go_down", "BMOCIter::next", "Cell::new", "build_raw_value"]
TRUSTED_BASE = ["Kani 0.68 / CBMC 6.11", "ghost builder = contract of BMOCBuilderUnsafe::{new,push,push_raw_unsafe,to_bmoc}: append the encoded cell to the output (Vec growth on symbolic data is intractable in CBMC); to_bmoc_packing additionally packs (pack contract: C15)",
                "go_up/go_down replaced by their tile contracts in the operator harnesses; refinement of the real functions proved for depth_max <= 3 (bmoc_go_*_refines), searched for 4..=29"]
def refinement_units():
    return [
        Unit("bmoc_go_down_refines", P + "bmoc_go_down_refines", ["go_down", "(stub) BMOCBuilderUnsafe::push"], "real go_down implements its tile contract: pushes valid, ordered, disjoint cells of the given flag covering exactly [lo(start), lo(target)); depth_max <= 3, all starts/targets", timeout=900, level="B", bound="depth_max <= 3"),
        Unit("bmoc_go_up_refines", P + "bmoc_go_up_refines", ["go_up", "(stub) BMOCBuilderUnsafe::push"], "real go_up implements its tile contract: covers exactly [hi(start), hi(ancestor dd levels up)), ends on (d-dd, (h>>2dd)+1); depth_max <= 3", timeout=900, level="B", bound="depth_max <= 3"),
        Unit("bmoc_go_down_refines_deep", P + "bmoc_go_down_refines_deep", ["go_down"], "same, depth_max 4..=29: time-bounded refutation search", kind="search", tiers=th, timeout=1200, level="B"),
        Unit("bmoc_go_up_refines_deep", P + "bmoc_go_up_refines_deep", ["go_up"], "same, depth_max 4..=29: time-bounded refutation search", kind="search", tiers=th, timeout=1200, level="B"),
        Unit("bmoc_dd_4_go_up_contract", P + "bmoc_dd_4_go_up_contract", ["dd_4_go_up"], "dd_4_go_up climbs exactly to one level below the deepest common ancestor of the current and the next cell (clipped at depth 0), all depths <= 29, all hashes", timeout=600, level="P"),
    ]
def op_unit(op, na, nb, full, tiers, timeout=900):
    nm = "bmoc_%s%s_%dx%d" % (op, "_full" if full else "", na, nb)
    what = "all-full operands (plain MOCs)" if full else "arbitrary flags"
    return Unit(nm, P + nm, OPS[op] + STUBS, "%s: for every pair of well-formed operands with %d and %d entries, depth_max of each in 0..=3 (different maxima included), %s, and every deepest cell c: state(out,c) == documented table; output well formed; all-full in => all-full out" % (op, na, nb, what),
                tiers=tiers, timeout=timeout, mem_gb=8, level="B", bound="%d x %d entries, depth_max <= 3" % (na, nb))
def not_unit(n, deep, tiers, timeout=900):
    nm = "bmoc_not_%d%s" % (n, "_deep" if deep else "")
    return Unit(nm, P + nm, OPS["not"] + STUBS, "not: operand with %d entries, depth_max %s, arbitrary flags: absent<->full, partial kept, on every deepest cell; output well formed and inside the sphere" % (n, "27..=29" if deep else "0..=3"),
                tiers=tiers, timeout=timeout, mem_gb=8, level="B", bound="%d entries" % n)
