# Verus contracts for the integer core of NESTED -> RING (property C10), all depths 0..=29 at once.
# Format: see lib/verus_extract.py.  Everything in FUNCTIONS is cut out of /repo's working tree on every run.

PREAMBLE = r'''
// GENERATED on every run by /verif/lib/verus_extract.py from /repo's working tree -- do not edit.
use vstd::prelude::*;
use vstd::arithmetic::power2::*;
use vstd::bits::*;
use vstd::arithmetic::div_mod::*;
verus! {

// ---------------------------------------------------------------- spec vocabulary (RING scheme, nside = n)
pub open spec fn tri4(n: int) -> int { 2 * n * (n + 1) }
/// first RING index of the iso-latitude ring r (counted from the north pole), 0 <= r <= 4n-2
pub open spec fn ring_first(n: int, r: int) -> int {
  if r < n { 2 * r * (r + 1) } else if r < 3 * n - 1 { 2 * n * (n + 1) + (r - n) * (4 * n) } else { 12 * n * n - 2 * (4 * n - 1 - r) * (4 * n - r) }
}
/// (ring 3n-1, the last one with 4n cells, is described by the southern-cap formulas, which agree with the band formulas there)
/// number of cells of ring r
pub open spec fn ring_len(n: int, r: int) -> int {
  if r < n { 4 * (r + 1) } else if r < 3 * n - 1 { 4 * n } else { 4 * (4 * n - 1 - r) }
}
/// ring (from the north) of the centre of cell (d0h, i, j): base-cell row jd = d0h / 4, h = i + j
pub open spec fn ring_of(n: int, d0h: int, i: int, j: int) -> int { n * (d0h / 4 + 2) - (i + j + 2) }
/// rank of the cell inside its ring, by increasing longitude of the centre in [0, 2pi):
///  caps: quadrant (d0h % 4) times cells per quadrant + rank of l = i - j inside the quadrant;
///  equatorial band: half the planar abscissa X of the centre (unit 1/n, X in [0, 8n)), rounded down.
pub open spec fn rank_in_ring(n: int, d0h: int, i: int, j: int) -> int {
  let r = ring_of(n, d0h, i, j);
  let id = d0h % 4;
  let l = i - j;
  if r < n { (r + 1) * id + (l + r) / 2 }
  else if r < 3 * n - 1 {
    let x = n * (2 * id + (if d0h / 4 == 1 { 0int } else { 1int })) + l;
    (if x < 0 { x + 8 * n } else { x }) / 2
  } else { let hh = 4 * n - 2 - r; (hh + 1) * id + (l + hh) / 2 }
}
pub open spec fn ring_index(n: int, d0h: int, i: int, j: int) -> int {
  ring_first(n, ring_of(n, d0h, i, j)) + rank_in_ring(n, d0h, i, j)
}

// reduced declaration: only the fields the extracted functions read (the real struct has 13 fields)
pub struct Layer { pub depth: u8, pub nside: u32, pub n_hash: u64, pub nside_remainder_mask: u64 }
pub open spec fn wf(s: Layer) -> bool {
  s.depth <= 29 && s.nside as nat == pow2(s.depth as nat) && s.n_hash as nat == 12 * pow2(s.depth as nat) * pow2(s.depth as nat)
  && s.nside_remainder_mask as nat == pow2(s.depth as nat) - 1
}
pub uninterp spec fn decode_spec(s: Layer, hash: u64) -> HashParts;

pub proof fn lemma_n(d: nat)
  requires d <= 29,
  ensures 1 <= pow2(d) <= 0x2000_0000, pow2(2 * d) == pow2(d) * pow2(d), pow2(d + 2) == 4 * pow2(d), pow2(d + 1) == 2 * pow2(d),
{
  lemma2_to64();
  if d < 29 { lemma_pow2_strictly_increases(d, 29); }
  lemma_pow2_pos(d);
  lemma_pow2_adds(d, d);
  lemma_pow2_adds(d, 2);
  lemma_pow2_adds(d, 1);
}

/// the ring intervals [ring_first(r), ring_first(r) + ring_len(r)) tile [0, 12 n^2) in ring order:
/// together with to_ring's contract, increasing RING index == (ring from the north, rank by longitude) lexicographic order
pub proof fn lemma_ring_intervals_tile(n: int, r: int)
  requires n >= 1, 0 <= r <= 4 * n - 2,
  ensures ring_first(n, 0) == 0,
          ring_len(n, r) >= 4,
          r < 4 * n - 2 ==> ring_first(n, r + 1) == ring_first(n, r) + ring_len(n, r),
          r == 4 * n - 2 ==> ring_first(n, r) + ring_len(n, r) == 12 * n * n,
{
  assert(2 * (r + 1) * (r + 2) == 2 * r * (r + 1) + 4 * (r + 1)) by (nonlinear_arith);
  assert(2 * n * (n + 1) + ((r + 1) - n) * (4 * n) == 2 * n * (n + 1) + (r - n) * (4 * n) + 4 * n) by (nonlinear_arith);
  assert(r == n - 1 ==> 2 * r * (r + 1) + 4 * (r + 1) == 2 * n * (n + 1) + ((r + 1) - n) * (4 * n)) by (nonlinear_arith);
  assert(r == 3 * n - 2 ==> 2 * n * (n + 1) + (r - n) * (4 * n) + 4 * n == 12 * n * n - 2 * (4 * n - 1 - (r + 1)) * (4 * n - (r + 1))) by (nonlinear_arith);
  assert(12 * n * n - 2 * (4 * n - 1 - (r + 1)) * (4 * n - (r + 1)) == 12 * n * n - 2 * (4 * n - 1 - r) * (4 * n - r) + 4 * (4 * n - 1 - r)) by (nonlinear_arith);
  assert(r == 4 * n - 2 ==> 12 * n * n - 2 * (4 * n - 1 - r) * (4 * n - r) + 4 * (4 * n - 1 - r) == 12 * n * n) by (nonlinear_arith);
}
/// rings are ordered: a cell of a more southern ring has a larger RING index than every cell of a more northern ring
pub proof fn lemma_rings_ordered(n: int, r1: int, r2: int)
  requires n >= 1, 0 <= r1 < r2 <= 4 * n - 2,
  ensures ring_first(n, r1) + ring_len(n, r1) <= ring_first(n, r2),
  decreases r2 - r1,
{
  lemma_ring_intervals_tile(n, r1);
  if r1 + 1 < r2 { lemma_rings_ordered(n, r1 + 1, r2); lemma_ring_intervals_tile(n, r1 + 1); }
}

impl Layer {
  // ASSUMED contract (the LUT / BMI codec is verified by Kani, properties C04/C18: in-range parts per z-order class)
  #[verifier::external_body]
  fn decode_hash(&self, hash: u64) -> (p: HashParts)
    requires wf(*self), hash < self.n_hash,
    ensures p.d0h < 12, p.i < self.nside, p.j < self.nside, p == decode_spec(*self, hash),
  { unimplemented!() }
  // ASSUMED contract: the codec is the inverse of decode_hash on valid parts (Kani: build_hash_from_parts contract per z-order class, C04)
  #[verifier::external_body]
  fn build_hash_from_parts(&self, d0h: u8, i: u32, j: u32) -> (r: u64)
    requires wf(*self), d0h < 12, i < self.nside, j < self.nside,
    ensures r < self.n_hash, decode_spec(*self, r) == (HashParts { d0h: d0h, i: i, j: j }),
  { unimplemented!() }
}

// ASSUMED: accuracy of the float estimate (IEEE sqrt, casts) -- the exact ring index is within +-1 of it.
// (The Kani units pcri_contract_* search this claim on the real expression.)
#[verifier::external_body]
fn sqrt_estimate(hash: u64) -> (e: u64)
  requires hash < 0x4000_0000_0000_0000u64,
  ensures e < 0x4000_0000u64,
          e >= 1 ==> tri4(e as int - 1) <= hash as int,
          (hash as int) < tri4(e as int + 2),
{ unimplemented!() }
'''

POSTAMBLE = r'''
// composition over the two contracts above (hand-written two-line harness, NOT repository code):
// to_ring(from_ring(r)) == r for every depth and every RING index r. With to_ring's range contract this makes from_ring
// injective on the finite set [0, 12 nside^2), hence both maps bijections and mutually inverse.
fn ring_round_trip(s: &Layer, r: u64) -> (out: u64)
  requires wf(*s), r < s.n_hash,
  ensures out == r,
{
  let h = s.from_ring(r);
  s.to_ring(h)
}
// @CANARY
} // verus!
fn main() {}
'''

CANARY = r'''
fn canary(s: &Layer, hash: u64) requires wf(*s), hash < s.n_hash {
  let r = s.to_ring(hash);
  let h = s.from_ring(hash);
  assert(r == 0 || h == 0); // CANARY must fail
}
'''

DROPPED = [
    "struct Layer reduced to the fields read by the extracted functions (depth, nside, n_hash, nside_remainder_mask; wf(): nside_remainder_mask == nside - 1); wf() states their relation as established by Layer::new (proved for every depth by the Kani unit layer_new_wf)",
    "Layer::decode_hash not extracted: external_body with the assumed contract d0h < 12, i < nside, j < nside",
    "Layer::build_hash_from_parts not extracted: external_body with the assumed contract 'result < n_hash and decode_hash(result) == (d0h, i, j)' for valid parts (the codec inverse; Kani proves the per-class codec contract in C04/C18)",
    "attributes and doc comments above the signatures are not copied (#[inline])",
]

# guard: the generic helper that is inlined textually must still be `x.shr(1)`
GUARDS = [dict(file="src/nested/mod.rs", sig="fn div2_quotient<T: Shr<u8, Output=T>>(x: T) -> T {", must_contain="x.shr(1)")]

_D2 = "generic helper div2_quotient<T: Shr> (body `x.shr(1)`, guarded) inlined textually: Verus cannot give a generic Shr call a meaning"

FUNCTIONS = [
    dict(name="HashParts", file="src/nested/mod.rs", sig="struct HashParts {", contract=None, kind="struct"),
    dict(name="ring::triangular_number_x4", file="src/ring/mod.rs", sig="pub(crate) const fn triangular_number_x4(n: u64) -> u64 {", ret="r",
         contract=["requires n <= 0x8000_0000u64,", "ensures r as int == tri4(n as int),"],
         ghost=[dict(at="start", lines=[
             "proof {",
             "  assert(n * (n + 1) <= 0x8000_0000u64 * 0x8000_0001u64) by (nonlinear_arith) requires n <= 0x8000_0000u64;",
             "  let p = (n * (n + 1)) as u64;",
             "  assert(p << 1 == p * 2) by (bit_vector) requires p <= 0x4000_0000_8000_0000u64;",
             "  assert(2 * n * (n + 1) == (n * (n + 1)) * 2) by (nonlinear_arith);",
             "}"])]),
    dict(name="ring::polar_cap_ring_index", file="src/ring/mod.rs", sig="pub(crate) fn polar_cap_ring_index(hash: u64) -> u64 {", ret="r",
         contract=["requires hash < 0x4000_0000_0000_0000u64,",
                   "ensures tri4(r as int) <= hash as int, (hash as int) < tri4(r as int + 1), r < 0x4000_0001u64,"],
         rewrites=[dict(old="(((1 + (hash << 1)) as f64).sqrt() as u64 - 1) >> 1", new="sqrt_estimate(hash)",
                        why="float sqrt estimate replaced by an uninterpreted function with the ASSUMED accuracy 'exact index within +-1'; Verus has no float reasoning")],
         ghost=[dict(before="if triangular_number_x4(i_ring) > hash {", prefix=True, lines=[
             "proof {",
             "  let x = i_ring as int;",
             "  assert(x == 0 ==> tri4(x) == 0) by (nonlinear_arith);",
             "  assert(tri4(x + 1) == tri4(x) + 4 * (x + 1) && tri4(x + 2) == tri4(x + 1) + 4 * (x + 2)) by (nonlinear_arith);",
             "  assert(x >= 1 ==> tri4(x) == tri4(x - 1) + 4 * x) by (nonlinear_arith);",
             "}"]),
                dict(before="i_ring", lines=[
             "proof {",
             "  let x = i_ring as int;",
             "  assert(tri4(x + 1) == tri4(x) + 4 * (x + 1)) by (nonlinear_arith);",
             "}"])]),
    dict(name="div2_remainder", file="src/nested/mod.rs", sig="const fn div2_remainder(x: u64) -> u64 {", ret="r",
         contract=["ensures r == x % 2,"],
         ghost=[dict(at="start", lines=["proof { assert(x & 1 == x % 2) by (bit_vector); }"])]),
    dict(name="div4_quotient", file="src/nested/mod.rs", sig="const fn div4_quotient(x: u8) -> u8 {", ret="r",
         contract=["ensures r == x / 4,"],
         ghost=[dict(at="start", lines=["proof { assert(x >> 2 == x / 4) by (bit_vector); }"])]),
    dict(name="div4_remainder", file="src/nested/mod.rs", sig="const fn div4_remainder(x: u8) -> u8 {", ret="r",
         contract=["ensures r == x % 4,"],
         ghost=[dict(at="start", lines=["proof { assert(x & 3 == x % 4) by (bit_vector); }"])]),
    dict(name="Layer::nside_time", file="src/nested/mod.rs", sig="fn nside_time(&self, i: u64) -> u64 {", ret="r", wrap=("impl Layer {", "}"),
         contract=["requires wf(*self), i <= 16,", "ensures r as nat == i as nat * pow2(self.depth as nat), i <= 4 ==> r as nat <= 4 * pow2(self.depth as nat), i <= 1 ==> r as nat <= pow2(self.depth as nat),"],
         ghost=[dict(at="start", lines=[
             "proof {",
             "  lemma_n(self.depth as nat);",
             "  assert(i * pow2(self.depth as nat) <= 16 * 0x2000_0000) by (nonlinear_arith) requires i <= 16, pow2(self.depth as nat) <= 0x2000_0000;",
             "  lemma_u64_shl_is_mul(i, self.depth as u64);",
             "  assert(i <= 4 ==> i * pow2(self.depth as nat) <= 4 * pow2(self.depth as nat)) by (nonlinear_arith);",
             "  assert(i <= 1 ==> i * pow2(self.depth as nat) <= pow2(self.depth as nat)) by (nonlinear_arith);",
             "}"])]),
    dict(name="Layer::first_hash_in_eqr", file="src/nested/mod.rs", sig="fn first_hash_in_eqr(&self) -> u64 {", ret="r", wrap=("impl Layer {", "}"),
         contract=["requires wf(*self),", "ensures r as int == tri4(pow2(self.depth as nat) as int),"],
         ghost=[dict(at="start", lines=[
             "proof {",
             "  let d = self.depth; let n = pow2(d as nat);",
             "  lemma_n(d as nat);",
             "  assert(d << 1 == 2 * d) by (bit_vector) requires d <= 29;",
             "  assert(n * n <= 0x2000_0000 * 0x2000_0000) by (nonlinear_arith) requires 1 <= n <= 0x2000_0000;",
             "  lemma_u64_shl_is_mul(1u64, (2 * d) as u64);",
             "  let q = ((1_u64 << ((2 * d) as u8)) + self.nside as u64) as u64;",
             "  assert(q == n * n + n);",
             "  assert(q << 1 == q * 2) by (bit_vector) requires q <= 0x1000_0000_0000_0000u64;",
             "  assert(2 * n * (n + 1) == (n * n + n) * 2) by (nonlinear_arith);",
             "}"])]),
    dict(name="Layer::minus_nside_x_4nside", file="src/nested/mod.rs", sig="fn minus_nside_x_4nside(&self, i_ring: u64) -> u64 {", ret="r", wrap=("impl Layer {", "}"),
         contract=["requires wf(*self), pow2(self.depth as nat) <= i_ring, i_ring < 4 * pow2(self.depth as nat),",
                   "ensures r as int == (i_ring as int - pow2(self.depth as nat) as int) * (4 * pow2(self.depth as nat) as int),"],
         ghost=[dict(at="start", lines=[
             "proof {",
             "  let d = self.depth; let n = pow2(d as nat);",
             "  lemma_n(d as nat);",
             "  let x = (i_ring - self.nside as u64) as u64;",
             "  assert(x * (4 * n) <= 0x8000_0000 * 0x8000_0000) by (nonlinear_arith) requires x <= 0x8000_0000, 4 * n <= 0x8000_0000;",
             "  lemma_u64_shl_is_mul(x, (d + 2) as u64);",
             "}"])]),
    dict(name="Layer::div_by_nside_floor_u8", file="src/nested/mod.rs", sig="fn div_by_nside_floor_u8(&self, val: u64) -> u8 {", ret="r", wrap=("impl Layer {", "}"),
         contract=["requires wf(*self), val < 8 * pow2(self.depth as nat),", "ensures r as int == val as int / pow2(self.depth as nat) as int, r < 8,"],
         ghost=[dict(at="start", lines=[
             "proof {",
             "  lemma_n(self.depth as nat);",
             "  lemma_u64_shr_is_div(val, self.depth as u64);",
             "  let n = pow2(self.depth as nat) as int;",
             "  assert(val as int / n < 8) by (nonlinear_arith) requires 0 <= val as int, (val as int) < 8 * n, n >= 1;",
             "}"])]),
    dict(name="Layer::modulo_nside", file="src/nested/mod.rs", sig="fn modulo_nside(&self, val: u64) -> u64 {", ret="r", wrap=("impl Layer {", "}"),
         contract=["requires wf(*self),", "ensures r as int == val as int % pow2(self.depth as nat) as int,"],
         ghost=[dict(at="start", lines=[
             "proof {",
             "  lemma_n(self.depth as nat);",
             "  lemma_u64_low_bits_mask_is_mod(val, self.depth as nat);",
             "  assert(low_bits_mask(self.depth as nat) == pow2(self.depth as nat) - 1) by { lemma_low_bits_mask_values(); reveal(low_bits_mask); }",
             "}"])]),
    dict(name="depth0_hash_unsafe", file="src/nested/mod.rs", sig="fn depth0_hash_unsafe(i: u8, j: u8) -> u8 {", ret="r",
         contract=["requires i <= 4, j <= 4, 3 <= i + j <= 5,",
                   "ensures r as int / 4 == 5 - (i + j), r as int % 4 == (if i + j == 5 { (i - 1) % 4 } else { i as int % 4 }), r < 12,"],
         ghost=[dict(at="start", lines=[
             "proof {",
             "  let k: i8 = (5 - (i + j)) as i8;",
             "  assert(k == 5_i8 - (i + j) as i8);",
             "  assert(k << 2 == k * 4) by (bit_vector) requires 0 <= k <= 2;",
             "  let km1: i8 = (k - 1) as i8;",
             "  assert(km1 >> 7 == (if km1 == -1i8 { -1i8 } else { 0i8 })) by (bit_vector) requires -1 <= km1 <= 1;",
             "  let m: i8 = ((i as i8) + (km1 >> 7)) as i8;",
             "  assert(m & 3_i8 == (if m == -1i8 { 3i8 } else if m == 4i8 { 0i8 } else { m })) by (bit_vector) requires -1 <= m <= 4;",
             "}"])]),
    dict(name="Layer::from_ring", file="src/nested/mod.rs", sig="pub fn from_ring(&self, hash: u64) -> u64 {", ret="r", drop_pub=True, wrap=("impl Layer {", "}"),
         contract=["requires wf(*self), hash < self.n_hash,",
                   "ensures r < self.n_hash, ({ let p = decode_spec(*self, r); let n = pow2(self.depth as nat) as int;",
                   "   p.d0h < 12 && p.i < self.nside && p.j < self.nside && ring_index(n, p.d0h as int, p.i as int, p.j as int) == hash as int }),"],
         ghost=[
             dict(at="start", lines=[
                 "proof { lemma_n(self.depth as nat); }",
                 "let ghost n = pow2(self.depth as nat) as int;",
                 "let ghost hash0 = hash as int;",
                 "assert(self.nside as int == n && self.n_hash as int == 12 * n * n);",
                 "assert(tri4(n) == 2 * n * n + 2 * n && 2 * tri4(n) <= 12 * n * n && 12 * n * n <= 12 * 0x2000_0000 * 0x2000_0000) by (nonlinear_arith) requires 1 <= n <= 0x2000_0000;",
                 "assert(forall|x: u64| x <= 0x4000_0000_0000_0000u64 ==> #[trigger] (x << 1) == x * 2) by (bit_vector);",
                 "assert(forall|x: i64| #[trigger] (x >> 1) * 2 <= x && x <= (x >> 1) * 2 + 1) by (bit_vector);",
                 "assert(forall|x: u64| #[trigger] (x & 1) == x % 2) by (bit_vector);",
                 "assert(forall|x: u64| x <= 0x1000_0000_0000_0000u64 ==> #[trigger] (x << 2) == x * 4) by (bit_vector);",
                 "assert(forall|x: i64| 0 <= x <= 0x1000_0000_0000_0000i64 ==> #[trigger] (x << 2) == x * 4) by (bit_vector);",
                 "assert(forall|x: u64| #[trigger] (x >> 1) == x / 2) by (bit_vector);",
                 "let ghost sh = (self.depth + 2) as u64;",
                 "assert(pow2(sh as nat) == 4 * n);",
                 "assert forall|x: u64| #[trigger] (x >> sh) == x as nat / pow2(sh as nat) by { lemma_u64_shr_is_div(x, sh); }",
                 "assert forall|x: u64| x * pow2(sh as nat) <= u64::MAX implies #[trigger] (x << sh) == x * pow2(sh as nat) by { lemma_u64_shl_is_mul(x, sh); }",
                 "assert forall|a: int, b: int| 0 <= a && 0 < b implies b * (#[trigger] (a / b)) <= a && a < b * (a / b) + b && (a < 4 * b ==> a / b <= 3) && a / b >= 0 by {",
                 "  lemma_fundamental_div_mod(a, b); lemma_mod_bound(a, b);",
                 "  assert(a < 4 * b && b * (a / b) <= a ==> a / b <= 3) by (nonlinear_arith) requires b > 0;",
                 "  assert(a / b >= 0) by (nonlinear_arith) requires a < b * (a / b) + b, b > 0, a >= 0;",
                 "}"]),
             dict(before="self.build_hash_from_parts (", nth=0, of=3, lines=[
                 "proof {",
                 "  let r0 = i_ring as int; let a = i_in_ring as int; let q = d0h as int; let rem = a - (r0 + 1) * q;",
                 "  assert(r0 < n) by (nonlinear_arith) requires 2 * r0 * (r0 + 1) <= hash0, hash0 < 2 * n * (n + 1), r0 >= 0, n >= 1;",
                 "  assert(tri4(r0 + 1) == tri4(r0) + 4 * (r0 + 1)) by (nonlinear_arith);",
                 "  assert(0 <= q <= 3 && 0 <= rem <= r0);",
                 "  assert(h as int == 2 * n - 2 - r0 && l as int == 2 * rem - r0);",
                 "  let ii = ((h + l) as i64 >> 1) as int; let jj = ((h - l) as i64 >> 1) as int;",
                 "  assert(ii == n - 1 - r0 + rem && jj == n - 1 - rem);",
                 "  assert(q / 4 == 0 && q % 4 == q);",
                 "  assert(ring_of(n, q, ii, jj) == r0) by (nonlinear_arith) requires q / 4 == 0, ii + jj == 2 * n - 2 - r0, ring_of(n, q, ii, jj) == n * (q / 4 + 2) - (ii + jj + 2);",
                 "  assert(ring_first(n, r0) == tri4(r0));",
                 "  assert(rank_in_ring(n, q, ii, jj) == (r0 + 1) * q + rem);",
                 "  assert(ring_index(n, q, ii, jj) == hash0);",
                 "}"]),
             dict(before="let n_in_ring = i_ring + 1;", lines=[
                 "assert(tri4(i_ring as int + 1) == tri4(i_ring as int) + 4 * (i_ring as int + 1)) by (nonlinear_arith);"]),
             dict(before="// Substract number of hash in previous rings (-= n_rings * 4*nside)", lines=[
                 "proof {",
                 "  let z = hash0 - first_hash_in_eqr as int;",
                 "  lemma_fundamental_div_mod(z, 4 * n); lemma_mod_bound(z, 4 * n);",
                 "  assert(i_ring as int == z / (4 * n));",
                 "  assert(i_ring as int <= 2 * n - 2) by (nonlinear_arith) requires (4 * n) * (i_ring as int) <= z, z < 12 * n * n - 2 * (2 * n * n + 2 * n), n >= 1;",
                 "  assert(i_ring * pow2(sh as nat) <= z) by (nonlinear_arith) requires (4 * n) * (i_ring as int) <= z, pow2(sh as nat) == 4 * n;",
                 "}"]),
             dict(before="self.build_hash_from_parts (", nth=1, of=3, lines=[
                 "proof {",
                 "  let hp = hash as int;",
                 "  assert(hp == 12 * n * n - 1 - hash0);",
                 "  let r0 = i_ring as int; let a = i_in_ring as int; let q = d0h as int; let rem = a - (r0 + 1) * q;",
                 "  assert(r0 < n) by (nonlinear_arith) requires 2 * r0 * (r0 + 1) <= hp, hp < 2 * n * (n + 1), r0 >= 0, n >= 1;",
                 "  assert(tri4(r0 + 1) == tri4(r0) + 4 * (r0 + 1)) by (nonlinear_arith);",
                 "  assert(0 <= q <= 3 && 0 <= rem <= r0);",
                 "  assert(h as int == r0 && l as int == 2 * rem - r0);",
                 "  let ii = ((h + l) as i64 >> 1) as int; let jj = ((h - l) as i64 >> 1) as int;",
                 "  assert(ii == rem && jj == r0 - rem);",
                 "  let dd = q + 8;",
                 "  assert(dd / 4 == 2 && dd % 4 == q);",
                 "  assert(ring_of(n, dd, ii, jj) == 4 * n - 2 - r0) by (nonlinear_arith) requires dd / 4 == 2, ii + jj == r0, ring_of(n, dd, ii, jj) == n * (dd / 4 + 2) - (ii + jj + 2);",
                 "  let rg = 4 * n - 2 - r0;",
                 "  assert(rg >= 3 * n - 1);",
                 "  assert(ring_first(n, rg) == 12 * n * n - tri4(r0 + 1)) by (nonlinear_arith) requires ring_first(n, rg) == 12 * n * n - 2 * (4 * n - 1 - rg) * (4 * n - rg), rg == 4 * n - 2 - r0;",
                 "  assert(rank_in_ring(n, dd, ii, jj) == (r0 + 1) * q + rem);",
                 "  assert(ring_index(n, dd, ii, jj) == hash0);",
                 "}"]),
             dict(before="self.build_hash_from_parts (", nth=2, of=3, lines=[
                 "proof {",
                 "  let f = first_hash_in_eqr as int; let rp = i_ring as int; let a = i_in_ring as int; let z = hash0 - f;",
                 "  assert(rp == z / (4 * n) && a == z - rp * (4 * n));",
                 "  assert(0 <= a < 4 * n);",
                 "  assert(rp <= 2 * n - 2) by (nonlinear_arith) requires (4 * n) * rp <= z, z < 12 * n * n - 2 * (2 * n * n + 2 * n), n >= 1;",
                 "  assert(l as int == 2 * a + rp % 2 && h as int == 2 * n - 2 - rp);",
                 "  let bi = i_in_d0c as int; let bj = j_in_d0c as int;",
                 "  assert((h as int + l as int) % 2 == 0);",
                 "  assert(bi == (h as int + l as int) / 2 && bj == (h as int - l as int) / 2 + 4 * n && bi + bj == h as int + 4 * n);",
                 "  assert(0 <= bi && bi < 5 * n && 0 <= bj && bj < 5 * n);",
                 "  let ca = bi / n; let cb = bj / n; let i = bi - n * ca; let j = bj - n * cb;",
                 "  lemma_fundamental_div_mod(bi, n); lemma_fundamental_div_mod(bj, n); lemma_mod_bound(bi, n); lemma_mod_bound(bj, n);",
                 "  assert(i == bi % n && j == bj % n && 0 <= i < n && 0 <= j < n);",
                 "  assert(0 <= ca <= 4 && 0 <= cb <= 4) by (nonlinear_arith) requires n * ca <= bi, bi < 5 * n, n * cb <= bj, bj < 5 * n, ca >= 0, cb >= 0, n >= 1;",
                 "  let s = ca + cb;",
                 "  assert(n * s == n * ca + n * cb) by (nonlinear_arith) requires s == ca + cb;",
                 "  assert(3 <= s <= 5) by (nonlinear_arith) requires n * s == h as int + 4 * n - (i + j), 0 <= i + j <= 2 * n - 2, 0 <= h as int <= 2 * n - 2, n >= 1;",
                 "  let k = 5 - s; let idv = if s == 5 { (ca - 1) % 4 } else { ca % 4 }; let c = if k == 1 { 0int } else { 1int };",
                 "  assert(ca >= 1 || s != 5);",
                 "  let m = 2 * idv + c - ca + cb - 4;",
                 "  assert(m == 0 || (m == -8 && k == 1 && ca == 4));",
                 "  let x = n * (2 * idv + c) + (i - j);",
                 "  assert(i - j == (l as int - 4 * n) - (n * ca - n * cb));",
                 "  assert(x == n * m + l as int) by (nonlinear_arith) requires x == n * (2 * idv + c) + (i - j), i - j == (l as int - 4 * n) - (n * ca - n * cb), m == 2 * idv + c - ca + cb - 4;",
                 "  assert(n * m == 0 || n * m == -8 * n) by (nonlinear_arith) requires m == 0 || m == -8;",
                 "  let xx = if x < 0 { x + 8 * n } else { x };",
                 "  assert(xx == l as int);",
                 "  assert(n * (k + 2) - (i + j + 2) == n + rp) by (nonlinear_arith) requires k == 5 - s, n * s == h as int + 4 * n - (i + j), h as int == 2 * n - 2 - rp;",
                 "  assert(ring_first(n, n + rp) == tri4(n) + rp * (4 * n));",
                 "  assert forall|dd: int| 0 <= dd < 12 && dd / 4 == k && dd % 4 == idv implies ring_index(n, dd, i, j) == hash0 by {",
                 "    assert(ring_of(n, dd, i, j) == n + rp);",
                 "    assert(rank_in_ring(n, dd, i, j) == xx / 2);",
                 "  }",
                 "}"]),
         ]),
    dict(name="Layer::to_ring", file="src/nested/mod.rs", sig="pub fn to_ring(&self, hash: u64) -> u64 {", ret="r", drop_pub=True, wrap=("impl Layer {", "}"),
         contract=["requires wf(*self), hash < self.n_hash,",
                   "ensures ({ let p = decode_spec(*self, hash); let n = pow2(self.depth as nat) as int;",
                   "   let rg = ring_of(n, p.d0h as int, p.i as int, p.j as int); let k = rank_in_ring(n, p.d0h as int, p.i as int, p.j as int);",
                   "   0 <= rg <= 4 * n - 2 && 0 <= k < ring_len(n, rg) && r as int == ring_first(n, rg) + k && (r as int) < 12 * n * n }),"],
         rewrites=[dict(old="let mut i_in_ring = div2_quotient(l);", new="let mut i_in_ring = (l >> 1u8);", why=_D2),
                   dict(old="i_in_ring += div2_quotient(self.nside_time(div2_remainder(j_d0h + 1))) as i64;",
                        new="i_in_ring += (self.nside_time(div2_remainder(j_d0h + 1)) >> 1u8) as i64;", why=_D2),
                   dict(old="div2_quotient(ip1)", new="(ip1 >> 1u8)", count=2, why=_D2),
                   dict(old="debug_assert!(j_d0h <= 2);", new="assert(j_d0h <= 2);", why="debug assertion turned into a proof obligation (stronger: proved never to fire)")],
         ghost=[
             dict(before="let h: u64 = i as u64 + j as u64;", lines=[
                 "proof { lemma_n(self.depth as nat); }",
                 "let ghost n = pow2(self.depth as nat) as int;"]),
             dict(before="let i_ring: u64 = self.nside_time(j_d0h + 2) - (h + 2);", lines=[
                 "assert(self.nside as int == n);",
                 "assert(d0h as int / 4 <= 2);",
                 "assert((j_d0h as int + 2) * n >= 2 * n && (j_d0h as int + 2) * n <= 4 * n) by (nonlinear_arith) requires 0 <= j_d0h <= 2, n >= 1;"]),
             dict(before="let first_isolat_index;", lines=[
                 "assert(i_ring as int == ring_of(n, d0h as int, i as int, j as int)) by (nonlinear_arith)",
                 "  requires i_ring as int == (j_d0h as int + 2) * n - (h as int + 2), j_d0h as int == d0h as int / 4, h as int == i as int + j as int;",
                 "assert((l >> 1u8) * 2 <= l && l <= (l >> 1u8) * 2 + 1) by (bit_vector) requires -0x4000_0000i64 < l < 0x4000_0000i64;",
                 "assert((l >> 1u8) as int == (l as int) / 2);",
                 "let ghost l0 = l as int; let ghost h0 = h as int; let ghost id = i_d0h as int; let ghost jd = j_d0h as int;"]),
             dict(before="if i_ring < self.nside as u64 {", prefix=True, lines=[
                 "let ghost rr = i_ring as int;",
                 "assert(rr < n ==> jd == 0) by (nonlinear_arith) requires rr == (jd + 2) * n - (h0 + 2), h0 <= 2 * n - 2, jd >= 0, n >= 1;",
                 "assert(rr >= 3 * n - 1 ==> jd == 2) by (nonlinear_arith) requires rr == (jd + 2) * n - (h0 + 2), h0 >= 0, jd <= 2, n >= 1;",
                 "assert(jd == 2 ==> rr == 4 * n - 2 - h0) by (nonlinear_arith) requires rr == (jd + 2) * n - (h0 + 2);",
                 "assert(3 * n == (3 as int) * n && 0 < 3 * n);",
                 "assert(i_ring < 0x2000_0000 ==> i_ring * (i_ring + 1) <= 0x2000_0000 * 0x2000_0000) by (nonlinear_arith);",
                 "assert(i_ring < 0x2000_0000 ==> (i_ring + 1) * i_d0h <= 0x2000_0000 * 3) by (nonlinear_arith) requires i_d0h <= 3;",
                 "assert(forall|p: u64| p <= 0x0400_0000_0000_0000u64 ==> #[trigger] (p << 1) == p * 2) by (bit_vector);",
                 "assert(forall|t: u64| #[trigger] (t >> 1u8) == t / 2) by (bit_vector);",
                 "assert(2 * rr * (rr + 1) == (rr * (rr + 1)) * 2) by (nonlinear_arith);",
                 "assert((h + 1) * i_d0h <= 0x4000_0000 * 3) by (nonlinear_arith) requires h < 0x4000_0000, i_d0h <= 3;",
                 "assert(h0 <= n - 1 ==> tri4(h0 + 1) <= 12 * n * n) by (nonlinear_arith) requires 0 <= h0, n >= 1;",
                 "assert(self.n_hash as int == 12 * n * n) by (nonlinear_arith) requires self.n_hash as int == 12 * n * n;",
                 "assert(n <= rr && rr < 3 * n ==> (rr - n) * (4 * n) <= 0x8000_0000 * 0x8000_0000 && (rr - n) * (4 * n) >= 0) by (nonlinear_arith) requires 1 <= n <= 0x2000_0000;",
                 "assert(tri4(n) <= 0x2000_0000 * 0x8000_0000) by (nonlinear_arith) requires 1 <= n <= 0x2000_0000;"]),
             dict(before="} else if i_ring >= self.nside_time(3) - 1 {", prefix=True, lines=[
                 "assert(first_isolat_index as int == ring_first(n, i_ring as int));",
                 "assert(l0 + i_ring as int == 2 * (n - 1 - j as int));",
                 "assert(i_in_ring as int == l0 / 2 + (i_ring as int + 1) / 2 + (i_ring as int + 1) * id);",
                 "assert(i_in_ring as int == rank_in_ring(n, d0h as int, i as int, j as int));",
                 "assert((i_ring as int + 1) * id <= (i_ring as int + 1) * 3) by (nonlinear_arith) requires id <= 3, i_ring >= 0;",
                 "assert(0 <= i_in_ring && (i_in_ring as int) < ring_len(n, i_ring as int));"]),
             dict(before="} else {", prefix=True, lines=[
                 "assert(4 * n - 1 - i_ring as int == h0 + 1 && 4 * n - i_ring as int == h0 + 2);",
                 "assert(first_isolat_index as int == ring_first(n, i_ring as int));",
                 "assert(l0 + h0 == 2 * (i as int));",
                 "assert(i_in_ring as int == l0 / 2 + (h0 + 1) / 2 + (h0 + 1) * id);",
                 "assert(i_in_ring as int == rank_in_ring(n, d0h as int, i as int, j as int));",
                 "assert((h0 + 1) * id <= (h0 + 1) * 3) by (nonlinear_arith) requires id <= 3, h0 >= 0;",
                 "assert(0 <= i_in_ring && (i_in_ring as int) < ring_len(n, i_ring as int));"]),
             dict(before="i_in_ring as u64 + first_isolat_index", lines=[
                 "assert(first_isolat_index as int == ring_first(n, rr));",
                 "proof {",
                 "if n <= rr && rr < 3 * n - 1 {",
                 "  assert(rr == (jd + 2) * n - (h0 + 2));",
                 "  assert(n * id >= 0 && (id >= 1 ==> n * id >= n) && n * id <= 3 * n) by (nonlinear_arith) requires 0 <= id <= 3, n >= 1;",
                 "  if jd == 1 {",
                 "    assert(n * (2 * id + 0) == 2 * (n * id)) by (nonlinear_arith);",
                 "    assert(id * n == n * id && (jd + 1) % 2 == 0) by (nonlinear_arith) requires jd == 1;",
                 "    assert(0 * pow2(self.depth as nat) == 0 && 4 * pow2(self.depth as nat) == 4 * n && id * pow2(self.depth as nat) == id * n) by (nonlinear_arith) requires n == pow2(self.depth as nat) as int;",
                 "    assert((0u64 >> 1u8) == 0u64) by (bit_vector);",
                 "    assert(i_in_ring as int == l0 / 2 + (if d0h == 4 && l0 < 0 { 4 * n } else { id * n }));",
                 "    assert(d0h == 4 <==> id == 0);",
                 "  } else {",
                 "    assert(n >= 2) by (nonlinear_arith) requires n >= 1, rr == (jd + 2) * n - (h0 + 2), n <= rr, rr < 3 * n - 1, 0 <= h0 <= 2 * n - 2, jd == 0 || jd == 2;",
                 "    if self.depth == 0 { lemma2_to64(); }",
                 "    assert(self.depth >= 1);",
                 "    lemma_n((self.depth - 1) as nat);",
                 "    assert(id * n == n * id && 1 * n == n) by (nonlinear_arith);",
                 "    assert(n == 2 * pow2((self.depth - 1) as nat));",
                 "    assert(n * (2 * id + 1) == 2 * (n * id) + n) by (nonlinear_arith);",
                 "    assert(i_in_ring as int == l0 / 2 + n / 2 + n * id);",
                 "  }",
                 "}",
                 "}",
                 "assert(i_in_ring as int == rank_in_ring(n, d0h as int, i as int, j as int));",
                 "assert(0 <= i_in_ring && (i_in_ring as int) < ring_len(n, rr));",
                 "assert(ring_first(n, rr) + ring_len(n, rr) <= 12 * n * n) by (nonlinear_arith)",
                 "  requires 0 <= rr <= 4 * n - 2, n >= 1,",
                 "    ring_first(n, rr) == (if rr < n { 2 * rr * (rr + 1) } else if rr < 3 * n - 1 { 2 * n * (n + 1) + (rr - n) * (4 * n) } else { 12 * n * n - 2 * (4 * n - 1 - rr) * (4 * n - rr) }),",
                 "    ring_len(n, rr) == (if rr < n { 4 * (rr + 1) } else if rr < 3 * n - 1 { 4 * n } else { 4 * (4 * n - 1 - rr) });"]),
         ]),
]
