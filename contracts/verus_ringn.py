# Verus contracts for the region-boundary arithmetic of the RING scheme at ANY nside (property C11), 1 <= nside <= 2^29.
# Format: see lib/verus_extract.py.  Everything in FUNCTIONS is cut out of /repo's working tree on every run.

PREAMBLE = r'''
// GENERATED on every run by /verif/lib/verus_extract.py from /repo's working tree -- do not edit.
use vstd::prelude::*;
verus! {

pub open spec fn tri4(n: int) -> int { 2 * n * (n + 1) }
/// first RING index of the iso-latitude ring r (from the north pole), any nside n: caps have 4(r+1) cells per ring, the band 4n
pub open spec fn ring_first(n: int, r: int) -> int {
  if r < n { 2 * r * (r + 1) } else if r < 3 * n { 2 * n * (n + 1) + (r - n) * (4 * n) } else { 12 * n * n - 2 * (4 * n - 1 - r) * (4 * n - r) }
}
pub open spec fn ok(nside: u32) -> bool { 1 <= nside <= 0x2000_0000u32 }

pub proof fn lemma_sizes(n: int)
  requires 1 <= n <= 0x2000_0000,
  ensures n * n <= 0x2000_0000 * 0x2000_0000, 12 * n * n <= 12 * 0x2000_0000 * 0x2000_0000, n * (5 * n + 1) <= 0x2000_0000 * (5 * 0x2000_0000 + 1),
          n * (5 * n - 1) >= 0, n * (n + 1) <= 0x2000_0000 * 0x2000_0001, 12 * (n * n) == 12 * n * n,
{
  assert(n * n <= 0x2000_0000 * 0x2000_0000) by (nonlinear_arith) requires 1 <= n <= 0x2000_0000;
  assert(n * (5 * n + 1) <= 0x2000_0000 * (5 * 0x2000_0000 + 1)) by (nonlinear_arith) requires 1 <= n <= 0x2000_0000;
  assert(n * (5 * n - 1) >= 0) by (nonlinear_arith) requires 1 <= n;
  assert(n * (n + 1) <= 0x2000_0000 * 0x2000_0001) by (nonlinear_arith) requires 1 <= n <= 0x2000_0000;
  assert(12 * (n * n) == 12 * n * n) by (nonlinear_arith);
}
'''

POSTAMBLE = r'''
// the region boundaries are the ring starts of the RING scheme and partition [0, 12 nside^2) (hand-written harness over the contracts)
fn boundaries(nside: u32)
  requires ok(nside),
{
  let a = first_hash_on_npc_eqr_transition(nside);
  let b = first_hash_in_eqr(nside);
  let c = first_hash_on_eqr_spc_transition(nside);
  let d = first_hash_in_spc(nside);
  let t = n_hash(nside);
  let nr = n_isolatitude_rings(nside);
  proof {
    let n = nside as int;
    assert(a as int == ring_first(n, n - 1) && b as int == ring_first(n, n) && c as int == ring_first(n, 3 * n - 1) && d as int == ring_first(n, 3 * n)) by (nonlinear_arith)
      requires n >= 1, a as int == tri4(n - 1), b as int == tri4(n), c as int == 2 * n * (5 * n - 1), d as int == 2 * n * (5 * n + 1);
    assert(0 <= a as int && a < b && b <= c && c < d && d <= t) by (nonlinear_arith)
      requires n >= 1, a as int == tri4(n - 1), b as int == tri4(n), c as int == 2 * n * (5 * n - 1), d as int == 2 * n * (5 * n + 1), t as int == 12 * n * n;
    // the strict caps (rings 0..n-2 and 3n..4n-2) have the same size; between them 2n+1 rings of 4n cells
    assert(t - d == a as int && d - b == (2 * n) * (4 * n) && b - a == 4 * n && d - c == 4 * n) by (nonlinear_arith)
      requires n >= 1, a as int == tri4(n - 1), b as int == tri4(n), c as int == 2 * n * (5 * n - 1), d as int == 2 * n * (5 * n + 1), t as int == 12 * n * n;
    assert(nr as int == 4 * n - 1);
  }
}
// @CANARY
} // verus!
fn main() {}
'''

CANARY = r'''
fn canary(nside: u32) requires ok(nside) {
  let b = first_hash_in_eqr(nside);
  assert(b == 0); // CANARY must fail
}
'''

DROPPED = ["attributes and doc comments above the signatures are not copied (#[inline])",
           "`const` is kept; nside is restricted to 1..=2^29 (nside_max) by the contracts"]

_SHL = ["proof {", "  lemma_sizes(nside as int);", "}"]

FUNCTIONS = [
    dict(name="ring::n_hash", file="src/ring/mod.rs", sig="pub const fn n_hash(nside: u32) -> u64 {", ret="r",
         contract=["requires ok(nside),", "ensures r as int == 12 * (nside as int) * (nside as int),"],
         ghost=[dict(at="start", lines=["proof { lemma_sizes(nside as int); let n = nside as int; assert(12 * n <= 12 * 0x2000_0000); assert((12 * n) * n == 12 * (n * n)) by (nonlinear_arith); assert((12 * n) * n <= 12 * 0x2000_0000 * 0x2000_0000) by (nonlinear_arith) requires 1 <= n <= 0x2000_0000; }"])]),
    dict(name="ring::n_isolatitude_rings", file="src/ring/mod.rs", sig="pub const fn n_isolatitude_rings(nside: u32) -> u32 {", ret="r",
         contract=["requires ok(nside),", "ensures r as int == 4 * (nside as int) - 1,"],
         ghost=[dict(at="start", lines=["proof { assert(nside << 2 == nside * 4) by (bit_vector) requires nside <= 0x2000_0000u32; }"])]),
    dict(name="ring::triangular_number_x4", file="src/ring/mod.rs", sig="pub(crate) const fn triangular_number_x4(n: u64) -> u64 {", ret="r",
         contract=["requires n <= 0x8000_0000u64,", "ensures r as int == tri4(n as int),"],
         ghost=[dict(at="start", lines=[
             "proof {",
             "  assert(n * (n + 1) <= 0x8000_0000u64 * 0x8000_0001u64) by (nonlinear_arith) requires n <= 0x8000_0000u64;",
             "  let p = (n * (n + 1)) as u64;",
             "  assert(p << 1 == p * 2) by (bit_vector) requires p <= 0x4000_0000_8000_0000u64;",
             "  assert(2 * n * (n + 1) == (n * (n + 1)) * 2) by (nonlinear_arith);",
             "}"])]),
    dict(name="ring::triangular_number_x4_u32", file="src/ring/mod.rs", sig="pub(crate) const fn triangular_number_x4_u32(n: u32) -> u64 {", ret="r",
         contract=["requires n <= 0x8000_0000u32,", "ensures r as int == tri4(n as int),"],
         ghost=[dict(at="start", lines=[
             "proof {",
             "  let m = n as u64;",
             "  assert(m * (m + 1) <= 0x8000_0000u64 * 0x8000_0001u64) by (nonlinear_arith) requires m <= 0x8000_0000u64;",
             "  let p = (m * (m + 1)) as u64;",
             "  assert(p << 1 == p * 2) by (bit_vector) requires p <= 0x4000_0000_8000_0000u64;",
             "  assert(2 * m * (m + 1) == (m * (m + 1)) * 2) by (nonlinear_arith);",
             "}"])]),
    dict(name="ring::first_hash_in_eqr", file="src/ring/mod.rs", sig="pub const fn first_hash_in_eqr(nside: u32) -> u64 {", ret="r",
         contract=["requires ok(nside),", "ensures r as int == tri4(nside as int),"], ghost=[]),
    dict(name="ring::first_hash_on_npc_eqr_transition", file="src/ring/mod.rs", sig="pub const fn first_hash_on_npc_eqr_transition(nside: u32) -> u64 {", ret="r",
         contract=["requires ok(nside),", "ensures r as int == tri4(nside as int - 1),"], ghost=[]),
    dict(name="ring::first_hash_on_eqr_spc_transition", file="src/ring/mod.rs", sig="pub const fn first_hash_on_eqr_spc_transition(nside: u32) -> u64 {", ret="r",
         contract=["requires ok(nside),", "ensures r as int == 2 * (nside as int) * (5 * (nside as int) - 1),"],
         ghost=[dict(at="start", lines=[
             "proof {",
             "  lemma_sizes(nside as int);",
             "  let m = nside as u64; let p = (m * (5 * m - 1)) as u64;",
             "  assert(m * (5 * m - 1) <= 0x2000_0000 * (5 * 0x2000_0000)) by (nonlinear_arith) requires 1 <= m <= 0x2000_0000;",
             "  assert(p << 1 == p * 2) by (bit_vector) requires p <= 0x4000_0000_0000_0000u64;",
             "  assert(2 * m * (5 * m - 1) == (m * (5 * m - 1)) * 2) by (nonlinear_arith);",
             "}"])]),
    dict(name="ring::first_hash_in_spc", file="src/ring/mod.rs", sig="pub const fn first_hash_in_spc(nside: u32) -> u64 {", ret="r",
         contract=["requires ok(nside),", "ensures r as int == 2 * (nside as int) * (5 * (nside as int) + 1),"],
         ghost=[dict(at="start", lines=[
             "proof {",
             "  lemma_sizes(nside as int);",
             "  let m = nside as u64; let p = (m * (5 * m + 1)) as u64;",
             "  assert(p << 1 == p * 2) by (bit_vector) requires p <= 0x4000_0000_0000_0000u64;",
             "  assert(2 * m * (5 * m + 1) == (m * (5 * m + 1)) * 2) by (nonlinear_arith);",
             "}"])]),
]
