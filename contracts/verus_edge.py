# Verus contracts for the bit masks and the corner helpers of the internal edge (property C14), every delta_depth at once.
# Format: see lib/verus_extract.py.  Everything in FUNCTIONS is cut out of /repo's working tree on every run.

PREAMBLE = r'''
// GENERATED on every run by /verif/lib/verus_extract.py from /repo's working tree -- do not edit.
use vstd::prelude::*;
verus! {
/// 4^d - 1 as a bit pattern: the 2d low bits set
pub open spec fn low(d: u8) -> u64 { if d >= 32 { 0xFFFF_FFFF_FFFF_FFFFu64 } else { (((1u64 << ((2 * d) as u64)) - 1) as u64) } }
pub open spec fn okd(d: u8) -> bool { 1 <= d <= 29 }
/// the parent cell number leaves room for 2*dd more bits (depth + delta_depth <= 29: hash < 12 * 4^(29 - dd) < 2^(62 - 2 dd))
pub open spec fn fits(hash: u64, dd: u8) -> bool { okd(dd) && hash < (1u64 << ((62 - 2 * dd) as u64)) }
'''

POSTAMBLE = r'''
// @CANARY
} // verus!
fn main() {}
'''

CANARY = r'''
fn canary(hash: u64, dd: u8) requires fits(hash, dd) {
  let r = internal_corner_east(hash, dd);
  assert(r == 0); // CANARY must fail
}
'''

DROPPED = ["attributes and doc comments above the signatures are not copied (#[inline])",
           "`pub fn internal_corner(hash, delta_depth, &Cardinal)` (a four-arm match dispatching to the four functions below) is not extracted"]

def _mask(name, const, claim):
    c = {"5": "0x5555555555555555u64", "A": "0xAAAAAAAAAAAAAAAAu64", "F": "0xFFFFFFFFFFFFFFFFu64"}[const]
    return dict(name=name, file="src/nested/mod.rs", sig=("pub const fn %s(depth: u8) -> u64{" if name == "y_mask" else "pub const fn %s(depth: u8) -> u64 {") % name, ret="r",
                contract=["requires 1 <= depth <= 32,", "ensures " + claim + ","],
                ghost=[dict(at="start", lines=[
                    "proof {",
                    "  assert(depth << 1 == 2 * depth) by (bit_vector) requires depth <= 32;",
                    "  let d2: u64 = (2 * depth) as u64;",
                    "  let v: u64 = %s >> ((64 - d2) as u64);" % c,
                    "  let lw: u64 = low(depth);",
                    "  assert(lw == (if d2 == 64 { 0xFFFFFFFFFFFFFFFFu64 } else { (((1u64 << d2) - 1) as u64) }));",
                    "  assert(v <= lw && (%s)) by (bit_vector)" % {"5": "(v | (v << 1)) == lw && v & 0xAAAAAAAAAAAAAAAAu64 == 0", "A": "(v | (v >> 1)) == lw && v & 0x5555555555555555u64 == 0", "F": "v == lw"}[const],
                    "    requires 2 <= d2 <= 64, d2 %% 2 == 0, v == %s >> ((64 - d2) as u64), lw == (if d2 == 64 { 0xFFFFFFFFFFFFFFFFu64 } else { (((1u64 << d2) - 1) as u64) });" % c,
                    "}"])])

def _corner(name, mask, claim):
    return dict(name=name, file="src/nested/mod.rs", sig="pub fn %s(hash: u64, delta_depth: u8) -> u64 {" % name, ret="r",
                contract=["requires fits(hash, delta_depth),",
                          "ensures (r >> ((2 * delta_depth) as u64)) == hash, " + claim + ","],
                ghost=[dict(at="start", lines=[
                    "proof {",
                    "  let dd = delta_depth;",
                    "  assert(dd << 1 == 2 * dd) by (bit_vector) requires dd <= 32;",
                    "  let s: u64 = (2 * dd) as u64;",
                    "  let m: u64 = low(dd);",
                    "  assert(m == ((1u64 << s) - 1) as u64);",
                    "  assert(forall|k: u64| k <= (((1u64 << s) - 1) as u64) ==> #[trigger] (((hash << s) | k) >> s) == hash && ((hash << s) | k) & (((1u64 << s) - 1) as u64) == k) by (bit_vector)",
                    "    requires 2 <= s <= 58, hash < (1u64 << ((62 - s) as u64));",
                    "  assert((hash << s) >> s == hash && (hash << s) & (((1u64 << s) - 1) as u64) == 0) by (bit_vector) requires 2 <= s <= 58, hash < (1u64 << ((62 - s) as u64));",
                    "  assert(forall|a: u64, b: u64| #[trigger] (a & b) <= b) by (bit_vector);",
                    "}"])])

FUNCTIONS = [
    _mask("x_mask", "5", "r | (r << 1) == low(depth), r & 0xAAAAAAAAAAAAAAAAu64 == 0, r <= low(depth)"),
    _mask("y_mask", "A", "r | (r >> 1) == low(depth), r & 0x5555555555555555u64 == 0, r <= low(depth)"),
    _mask("xy_mask", "F", "r == low(depth)"),
    _corner("internal_corner_south", None, "r & low(delta_depth) == 0"),
    _corner("internal_corner_east", "x", "({ let m = r & low(delta_depth); (m | (m << 1)) == low(delta_depth) && m & 0xAAAAAAAAAAAAAAAAu64 == 0 })"),
    _corner("internal_corner_west", "y", "({ let m = r & low(delta_depth); (m | (m >> 1)) == low(delta_depth) && m & 0x5555555555555555u64 == 0 })"),
    _corner("internal_corner_north", "xy", "r & low(delta_depth) == low(delta_depth)"),
]
