"""
Contract overlay (DESIGN.md §2.1). Applied to a scratch COPY of /repo's working tree on every run.

MODULES: one `#[cfg(kani)] mod ...;` line appended to a real module file, so that the harness is a
         child module and reaches private items without widening visibility.
INJECT : Kani function-contract attributes inserted above the exact signature line `anchor` of a
         real function. Bodies are untouched; after stripping the lines marked `// @verif` the file
         must be byte-identical to the snapshot (checked by the driver, else exit 2).
"""

def _mod(file, path, name, vis=""):
    return dict(file=file, src=path.split("/")[-1], line='#[cfg(kani)] #[path = "%s"] %smod %s;' % (path, vis, name))

MODULES = [
    _mod("src/lib.rs", "verif/verif_spec.rs", "verif_spec", "pub(crate) "),
    _mod("src/lib.rs", "verif/verif_c16.rs", "verif_c16"),
    _mod("src/lib.rs", "verif/verif_proj.rs", "verif_proj"),
    _mod("src/ring/mod.rs", "../verif/verif_ringn.rs", "verif_ringn"),
    _mod("src/nested/zordercurve.rs", "../verif/verif_zoc.rs", "verif_zoc"),
    _mod("src/nested/bmoc.rs", "../verif/verif_bmoc.rs", "verif_bmoc", "pub(crate) "),
    _mod("src/nested/mod.rs", "../verif/verif_uniq.rs", "verif_uniq"),
    _mod("src/nested/mod.rs", "../verif/verif_nb.rs", "verif_nb"),
    _mod("src/nested/mod.rs", "../verif/verif_ring.rs", "verif_ring"),
    _mod("src/nested/mod.rs", "../verif/verif_edge.rs", "verif_edge"),
    _mod("src/nested/mod.rs", "../verif/verif_hash.rs", "verif_hash"),
    _mod("src/nested/mod.rs", "../verif/verif_geom.rs", "verif_geom"),
    _mod("src/nested/mod.rs", "../verif/verif_cone.rs", "verif_cone"),
    _mod("src/nested/mod.rs", "../verif/verif_poly.rs", "verif_poly"),
]

def _c(file, anchor, *attrs, **kw):
    d = dict(file=file, anchor=anchor, needs=None, lines=["#[cfg_attr(kani, %s)]" % a for a in attrs])
    d.update(kw)
    return d

N = "src/nested/mod.rs"
INJECT = [
    # ---- codec layer (C01/C04/C10/C14 share it): encode of (base cell, i, j) ----------------------
    _c(N, "  fn build_hash_from_parts(&self, d0h: u8, i: u32, j: u32) -> u64 {",
       "kani::requires(self.depth <= 29 && d0h < 12 && i < self.nside && j < self.nside)",
       "kani::ensures(|r: &u64| *r == crate::verif_spec::encode(self.depth, d0h, i, j))"),
    # ---- C18 uniq ------------------------------------------------------------------------------
    _c(N, "pub fn to_uniq(depth: u8, hash: u64) -> u64 {",
       "kani::requires(crate::verif_spec::valid_cell(depth, hash))",
       "kani::ensures(|r: &u64| *r == crate::verif_spec::uniq(depth, hash))"),
    _c(N, "pub fn to_uniq_ivoa(depth: u8, hash: u64) -> u64 {",
       "kani::requires(crate::verif_spec::valid_cell(depth, hash))",
       "kani::ensures(|r: &u64| *r == crate::verif_spec::uniq_ivoa(depth, hash))"),
    _c(N, "pub fn from_uniq(uniq_hash: u64) -> (u8, u64) {",
       "kani::requires(verif_uniq::is_uniq(uniq_hash))",
       "kani::ensures(|r: &(u8, u64)| crate::verif_spec::valid_cell(r.0, r.1) && crate::verif_spec::uniq(r.0, r.1) == uniq_hash)", needs="verif_uniq.rs"),
    _c(N, "pub fn from_uniq_ivoa(uniq_hash: u64) -> (u8, u64) {",
       "kani::requires(verif_uniq::is_uniq_ivoa(uniq_hash))",
       "kani::ensures(|r: &(u8, u64)| crate::verif_spec::valid_cell(r.0, r.1) && crate::verif_spec::uniq_ivoa(r.0, r.1) == uniq_hash)", needs="verif_uniq.rs"),
]
