
// GENERATED on every run by /verif/lib/verus_extract.py from /repo's working tree -- do not edit.
use vstd::prelude::*;
verus! {
/// 4^d - 1 as a bit pattern: the 2d low bits set
pub open spec fn low(d: u8) -> u64 { if d >= 32 { 0xFFFF_FFFF_FFFF_FFFFu64 } else { (((1u64 << ((2 * d) as u64)) - 1) as u64) } }
pub open spec fn okd(d: u8) -> bool { 1 <= d <= 29 }
/// the parent cell number leaves room for 2*dd more bits (depth + delta_depth <= 29: hash < 12 * 4^(29 - dd) < 2^(62 - 2 dd))
pub open spec fn fits(hash: u64, dd: u8) -> bool { okd(dd) && hash < (1u64 << ((62 - 2 * dd) as u64)) }


// ---- extracted from src/nested/mod.rs: x_mask
pub const fn x_mask(depth: u8) -> (r: u64) // @verif
  requires 1 <= depth <= 32, // @verif
  ensures r | (r << 1) == low(depth), r & 0xAAAAAAAAAAAAAAAAu64 == 0, r <= low(depth), // @verif
{ // @verif
    proof { // @verif
      assert(depth << 1 == 2 * depth) by (bit_vector) requires depth <= 32; // @verif
      let d2: u64 = (2 * depth) as u64; // @verif
      let v: u64 = 0x5555555555555555u64 >> ((64 - d2) as u64); // @verif
      let lw: u64 = low(depth); // @verif
      assert(lw == (if d2 == 64 { 0xFFFFFFFFFFFFFFFFu64 } else { (((1u64 << d2) - 1) as u64) })); // @verif
      assert(v <= lw && ((v | (v << 1)) == lw && v & 0xAAAAAAAAAAAAAAAAu64 == 0)) by (bit_vector) // @verif
        requires 2 <= d2 <= 64, d2 % 2 == 0, v == 0x5555555555555555u64 >> ((64 - d2) as u64), lw == (if d2 == 64 { 0xFFFFFFFFFFFFFFFFu64 } else { (((1u64 << d2) - 1) as u64) }); // @verif
    } // @verif
  0x5555555555555555_u64 >> (64 - (depth << 1))
}

// ---- extracted from src/nested/mod.rs: y_mask
pub const fn y_mask(depth: u8) -> (r: u64) // @verif
  requires 1 <= depth <= 32, // @verif
  ensures r | (r >> 1) == low(depth), r & 0x5555555555555555u64 == 0, r <= low(depth), // @verif
{ // @verif
    proof { // @verif
      assert(depth << 1 == 2 * depth) by (bit_vector) requires depth <= 32; // @verif
      let d2: u64 = (2 * depth) as u64; // @verif
      let v: u64 = 0xAAAAAAAAAAAAAAAAu64 >> ((64 - d2) as u64); // @verif
      let lw: u64 = low(depth); // @verif
      assert(lw == (if d2 == 64 { 0xFFFFFFFFFFFFFFFFu64 } else { (((1u64 << d2) - 1) as u64) })); // @verif
      assert(v <= lw && ((v | (v >> 1)) == lw && v & 0x5555555555555555u64 == 0)) by (bit_vector) // @verif
        requires 2 <= d2 <= 64, d2 % 2 == 0, v == 0xAAAAAAAAAAAAAAAAu64 >> ((64 - d2) as u64), lw == (if d2 == 64 { 0xFFFFFFFFFFFFFFFFu64 } else { (((1u64 << d2) - 1) as u64) }); // @verif
    } // @verif
  0xAAAAAAAAAAAAAAAA_u64 >> (64 - (depth << 1))
}

// ---- extracted from src/nested/mod.rs: xy_mask
pub const fn xy_mask(depth: u8) -> (r: u64) // @verif
  requires 1 <= depth <= 32, // @verif
  ensures r == low(depth), // @verif
{ // @verif
    proof { // @verif
      assert(depth << 1 == 2 * depth) by (bit_vector) requires depth <= 32; // @verif
      let d2: u64 = (2 * depth) as u64; // @verif
      let v: u64 = 0xFFFFFFFFFFFFFFFFu64 >> ((64 - d2) as u64); // @verif
      let lw: u64 = low(depth); // @verif
      assert(lw == (if d2 == 64 { 0xFFFFFFFFFFFFFFFFu64 } else { (((1u64 << d2) - 1) as u64) })); // @verif
      assert(v <= lw && (v == lw)) by (bit_vector) // @verif
        requires 2 <= d2 <= 64, d2 % 2 == 0, v == 0xFFFFFFFFFFFFFFFFu64 >> ((64 - d2) as u64), lw == (if d2 == 64 { 0xFFFFFFFFFFFFFFFFu64 } else { (((1u64 << d2) - 1) as u64) }); // @verif
    } // @verif
  0xFFFFFFFFFFFFFFFF_u64 >> (64 - (depth << 1))
}

// ---- extracted from src/nested/mod.rs: internal_corner_south
pub fn internal_corner_south(hash: u64, delta_depth: u8) -> (r: u64) // @verif
  requires fits(hash, delta_depth), // @verif
  ensures (r >> ((2 * delta_depth) as u64)) == hash, r & low(delta_depth) == 0, // @verif
{ // @verif
    proof { // @verif
      let dd = delta_depth; // @verif
      assert(dd << 1 == 2 * dd) by (bit_vector) requires dd <= 32; // @verif
      let s: u64 = (2 * dd) as u64; // @verif
      let m: u64 = low(dd); // @verif
      assert(m == ((1u64 << s) - 1) as u64); // @verif
      assert(forall|k: u64| k <= (((1u64 << s) - 1) as u64) ==> #[trigger] (((hash << s) | k) >> s) == hash && ((hash << s) | k) & (((1u64 << s) - 1) as u64) == k) by (bit_vector) // @verif
        requires 2 <= s <= 58, hash < (1u64 << ((62 - s) as u64)); // @verif
      assert((hash << s) >> s == hash && (hash << s) & (((1u64 << s) - 1) as u64) == 0) by (bit_vector) requires 2 <= s <= 58, hash < (1u64 << ((62 - s) as u64)); // @verif
      assert(forall|a: u64, b: u64| #[trigger] (a & b) <= b) by (bit_vector); // @verif
    } // @verif
  hash << (delta_depth << 1)
}

// ---- extracted from src/nested/mod.rs: internal_corner_east
pub fn internal_corner_east(hash: u64, delta_depth: u8) -> (r: u64) // @verif
  requires fits(hash, delta_depth), // @verif
  ensures (r >> ((2 * delta_depth) as u64)) == hash, ({ let m = r & low(delta_depth); (m | (m << 1)) == low(delta_depth) && m & 0xAAAAAAAAAAAAAAAAu64 == 0 }), // @verif
{ // @verif
    proof { // @verif
      let dd = delta_depth; // @verif
      assert(dd << 1 == 2 * dd) by (bit_vector) requires dd <= 32; // @verif
      let s: u64 = (2 * dd) as u64; // @verif
      let m: u64 = low(dd); // @verif
      assert(m == ((1u64 << s) - 1) as u64); // @verif
      assert(forall|k: u64| k <= (((1u64 << s) - 1) as u64) ==> #[trigger] (((hash << s) | k) >> s) == hash && ((hash << s) | k) & (((1u64 << s) - 1) as u64) == k) by (bit_vector) // @verif
        requires 2 <= s <= 58, hash < (1u64 << ((62 - s) as u64)); // @verif
      assert((hash << s) >> s == hash && (hash << s) & (((1u64 << s) - 1) as u64) == 0) by (bit_vector) requires 2 <= s <= 58, hash < (1u64 << ((62 - s) as u64)); // @verif
      assert(forall|a: u64, b: u64| #[trigger] (a & b) <= b) by (bit_vector); // @verif
    } // @verif
  (hash << (delta_depth << 1)) | x_mask(delta_depth)
}

// ---- extracted from src/nested/mod.rs: internal_corner_west
pub fn internal_corner_west(hash: u64, delta_depth: u8) -> (r: u64) // @verif
  requires fits(hash, delta_depth), // @verif
  ensures (r >> ((2 * delta_depth) as u64)) == hash, ({ let m = r & low(delta_depth); (m | (m >> 1)) == low(delta_depth) && m & 0x5555555555555555u64 == 0 }), // @verif
{ // @verif
    proof { // @verif
      let dd = delta_depth; // @verif
      assert(dd << 1 == 2 * dd) by (bit_vector) requires dd <= 32; // @verif
      let s: u64 = (2 * dd) as u64; // @verif
      let m: u64 = low(dd); // @verif
      assert(m == ((1u64 << s) - 1) as u64); // @verif
      assert(forall|k: u64| k <= (((1u64 << s) - 1) as u64) ==> #[trigger] (((hash << s) | k) >> s) == hash && ((hash << s) | k) & (((1u64 << s) - 1) as u64) == k) by (bit_vector) // @verif
        requires 2 <= s <= 58, hash < (1u64 << ((62 - s) as u64)); // @verif
      assert((hash << s) >> s == hash && (hash << s) & (((1u64 << s) - 1) as u64) == 0) by (bit_vector) requires 2 <= s <= 58, hash < (1u64 << ((62 - s) as u64)); // @verif
      assert(forall|a: u64, b: u64| #[trigger] (a & b) <= b) by (bit_vector); // @verif
    } // @verif
  (hash << (delta_depth << 1)) | y_mask(delta_depth)
}

// ---- extracted from src/nested/mod.rs: internal_corner_north
pub fn internal_corner_north(hash: u64, delta_depth: u8) -> (r: u64) // @verif
  requires fits(hash, delta_depth), // @verif
  ensures (r >> ((2 * delta_depth) as u64)) == hash, r & low(delta_depth) == low(delta_depth), // @verif
{ // @verif
    proof { // @verif
      let dd = delta_depth; // @verif
      assert(dd << 1 == 2 * dd) by (bit_vector) requires dd <= 32; // @verif
      let s: u64 = (2 * dd) as u64; // @verif
      let m: u64 = low(dd); // @verif
      assert(m == ((1u64 << s) - 1) as u64); // @verif
      assert(forall|k: u64| k <= (((1u64 << s) - 1) as u64) ==> #[trigger] (((hash << s) | k) >> s) == hash && ((hash << s) | k) & (((1u64 << s) - 1) as u64) == k) by (bit_vector) // @verif
        requires 2 <= s <= 58, hash < (1u64 << ((62 - s) as u64)); // @verif
      assert((hash << s) >> s == hash && (hash << s) & (((1u64 << s) - 1) as u64) == 0) by (bit_vector) requires 2 <= s <= 58, hash < (1u64 << ((62 - s) as u64)); // @verif
      assert(forall|a: u64, b: u64| #[trigger] (a & b) <= b) by (bit_vector); // @verif
    } // @verif
  (hash << (delta_depth << 1)) | xy_mask(delta_depth)
}


// @CANARY
} // verus!
fn main() {}
