
// GENERATED on every run by /verif/lib/verus_extract.py from /repo's working tree -- do not edit.
use vstd::prelude::*;
use vstd::arithmetic::power2::*;
use vstd::bits::*;
use vstd::arithmetic::div_mod::*;
verus! {

// ---------------------------------------------------------------- spec vocabulary (RING scheme, nside = n)
pub open spec fn tri4(n: int) -> int { 2 * n * (n + 1) }
/// first RING index of the iso-latitude ring r (counted from the north pole), 0 <= r <= 4n-2
pub open spec fn ring_first(n: int, r: int) -> int {
  if r < n { 2 * r * (r + 1) } else if r < 3 * n - 1 { 2 * n * (n + 1) + (r - n) * (4 * n) } else { 12 * n * n - 2 * (4 * n - 1 - r) * (4 * n - r) }
}
/// (ring 3n-1, the last one with 4n cells, is described by the southern-cap formulas, which agree with the band formulas there)
/// number of cells of ring r
pub open spec fn ring_len(n: int, r: int) -> int {
  if r < n { 4 * (r + 1) } else if r < 3 * n - 1 { 4 * n } else { 4 * (4 * n - 1 - r) }
}
/// ring (from the north) of the centre of cell (d0h, i, j): base-cell row jd = d0h / 4, h = i + j
pub open spec fn ring_of(n: int, d0h: int, i: int, j: int) -> int { n * (d0h / 4 + 2) - (i + j + 2) }
/// rank of the cell inside its ring, by increasing longitude of the centre in [0, 2pi):
///  caps: quadrant (d0h % 4) times cells per quadrant + rank of l = i - j inside the quadrant;
///  equatorial band: half the planar abscissa X of the centre (unit 1/n, X in [0, 8n)), rounded down.
pub open spec fn rank_in_ring(n: int, d0h: int, i: int, j: int) -> int {
  let r = ring_of(n, d0h, i, j);
  let id = d0h % 4;
  let l = i - j;
  if r < n { (r + 1) * id + (l + r) / 2 }
  else if r < 3 * n - 1 {
    let x = n * (2 * id + (if d0h / 4 == 1 { 0int } else { 1int })) + l;
    (if x < 0 { x + 8 * n } else { x }) / 2
  } else { let hh = 4 * n - 2 - r; (hh + 1) * id + (l + hh) / 2 }
}
pub open spec fn ring_index(n: int, d0h: int, i: int, j: int) -> int {
  ring_first(n, ring_of(n, d0h, i, j)) + rank_in_ring(n, d0h, i, j)
}

// reduced declaration: only the fields the extracted functions read (the real struct has 13 fields)
pub struct Layer { pub depth: u8, pub nside: u32, pub n_hash: u64, pub nside_remainder_mask: u64 }
pub open spec fn wf(s: Layer) -> bool {
  s.depth <= 29 && s.nside as nat == pow2(s.depth as nat) && s.n_hash as nat == 12 * pow2(s.depth as nat) * pow2(s.depth as nat)
  && s.nside_remainder_mask as nat == pow2(s.depth as nat) - 1
}
pub uninterp spec fn decode_spec(s: Layer, hash: u64) -> HashParts;

pub proof fn lemma_n(d: nat)
  requires d <= 29,
  ensures 1 <= pow2(d) <= 0x2000_0000, pow2(2 * d) == pow2(d) * pow2(d), pow2(d + 2) == 4 * pow2(d), pow2(d + 1) == 2 * pow2(d),
{
  lemma2_to64();
  if d < 29 { lemma_pow2_strictly_increases(d, 29); }
  lemma_pow2_pos(d);
  lemma_pow2_adds(d, d);
  lemma_pow2_adds(d, 2);
  lemma_pow2_adds(d, 1);
}

/// the ring intervals [ring_first(r), ring_first(r) + ring_len(r)) tile [0, 12 n^2) in ring order:
/// together with to_ring's contract, increasing RING index == (ring from the north, rank by longitude) lexicographic order
pub proof fn lemma_ring_intervals_tile(n: int, r: int)
  requires n >= 1, 0 <= r <= 4 * n - 2,
  ensures ring_first(n, 0) == 0,
          ring_len(n, r) >= 4,
          r < 4 * n - 2 ==> ring_first(n, r + 1) == ring_first(n, r) + ring_len(n, r),
          r == 4 * n - 2 ==> ring_first(n, r) + ring_len(n, r) == 12 * n * n,
{
  assert(2 * (r + 1) * (r + 2) == 2 * r * (r + 1) + 4 * (r + 1)) by (nonlinear_arith);
  assert(2 * n * (n + 1) + ((r + 1) - n) * (4 * n) == 2 * n * (n + 1) + (r - n) * (4 * n) + 4 * n) by (nonlinear_arith);
  assert(r == n - 1 ==> 2 * r * (r + 1) + 4 * (r + 1) == 2 * n * (n + 1) + ((r + 1) - n) * (4 * n)) by (nonlinear_arith);
  assert(r == 3 * n - 2 ==> 2 * n * (n + 1) + (r - n) * (4 * n) + 4 * n == 12 * n * n - 2 * (4 * n - 1 - (r + 1)) * (4 * n - (r + 1))) by (nonlinear_arith);
  assert(12 * n * n - 2 * (4 * n - 1 - (r + 1)) * (4 * n - (r + 1)) == 12 * n * n - 2 * (4 * n - 1 - r) * (4 * n - r) + 4 * (4 * n - 1 - r)) by (nonlinear_arith);
  assert(r == 4 * n - 2 ==> 12 * n * n - 2 * (4 * n - 1 - r) * (4 * n - r) + 4 * (4 * n - 1 - r) == 12 * n * n) by (nonlinear_arith);
}
/// rings are ordered: a cell of a more southern ring has a larger RING index than every cell of a more northern ring
pub proof fn lemma_rings_ordered(n: int, r1: int, r2: int)
  requires n >= 1, 0 <= r1 < r2 <= 4 * n - 2,
  ensures ring_first(n, r1) + ring_len(n, r1) <= ring_first(n, r2),
  decreases r2 - r1,
{
  lemma_ring_intervals_tile(n, r1);
  if r1 + 1 < r2 { lemma_rings_ordered(n, r1 + 1, r2); lemma_ring_intervals_tile(n, r1 + 1); }
}

impl Layer {
  // ASSUMED contract (the LUT / BMI codec is verified by Kani, properties C04/C18: in-range parts per z-order class)
  #[verifier::external_body]
  fn decode_hash(&self, hash: u64) -> (p: HashParts)
    requires wf(*self), hash < self.n_hash,
    ensures p.d0h < 12, p.i < self.nside, p.j < self.nside, p == decode_spec(*self, hash),
  { unimplemented!() }
  // ASSUMED contract: the codec is the inverse of decode_hash on valid parts (Kani: build_hash_from_parts contract per z-order class, C04)
  #[verifier::external_body]
  fn build_hash_from_parts(&self, d0h: u8, i: u32, j: u32) -> (r: u64)
    requires wf(*self), d0h < 12, i < self.nside, j < self.nside,
    ensures r < self.n_hash, decode_spec(*self, r) == (HashParts { d0h: d0h, i: i, j: j }),
  { unimplemented!() }
}

// ASSUMED: accuracy of the float estimate (IEEE sqrt, casts) -- the exact ring index is within +-1 of it.
// (The Kani units pcri_contract_* search this claim on the real expression.)
#[verifier::external_body]
fn sqrt_estimate(hash: u64) -> (e: u64)
  requires hash < 0x4000_0000_0000_0000u64,
  ensures e < 0x4000_0000u64,
          e >= 1 ==> tri4(e as int - 1) <= hash as int,
          (hash as int) < tri4(e as int + 2),
{ unimplemented!() }


// ---- extracted verbatim from src/nested/mod.rs: HashParts
struct HashParts {
  d0h: u8, // base cell number (depth 0 hash value)
  i: u32, // in the base cell, z-order curve coordinate along the x-axis
  j: u32, // in the base cell, z-order curve coordinate along the x-axis
}

// ---- extracted from src/ring/mod.rs: ring::triangular_number_x4
pub(crate) const fn triangular_number_x4(n: u64) -> (r: u64) // @verif
  requires n <= 0x8000_0000u64, // @verif
  ensures r as int == tri4(n as int), // @verif
{ // @verif
    proof { // @verif
      assert(n * (n + 1) <= 0x8000_0000u64 * 0x8000_0001u64) by (nonlinear_arith) requires n <= 0x8000_0000u64; // @verif
      let p = (n * (n + 1)) as u64; // @verif
      assert(p << 1 == p * 2) by (bit_vector) requires p <= 0x4000_0000_8000_0000u64; // @verif
      assert(2 * n * (n + 1) == (n * (n + 1)) * 2) by (nonlinear_arith); // @verif
    } // @verif
  (n * (n + 1)) << 1
}

// ---- extracted from src/ring/mod.rs: ring::polar_cap_ring_index
pub(crate) fn polar_cap_ring_index(hash: u64) -> (r: u64) // @verif
  requires hash < 0x4000_0000_0000_0000u64, // @verif
  ensures tri4(r as int) <= hash as int, (hash as int) < tri4(r as int + 1), r < 0x4000_0001u64, // @verif
{ // @verif
  // Solve 2*n(n+1) = x => n = [sqrt(1+2x) - 1] / 2 (n - 1 = ring index)
  let mut i_ring = sqrt_estimate(hash);
  // The float square root is not exact for values larger than 2^53 (depth >= 26): fix the estimate
    proof { // @verif
      let x = i_ring as int; // @verif
      assert(x == 0 ==> tri4(x) == 0) by (nonlinear_arith); // @verif
      assert(tri4(x + 1) == tri4(x) + 4 * (x + 1) && tri4(x + 2) == tri4(x + 1) + 4 * (x + 2)) by (nonlinear_arith); // @verif
      assert(x >= 1 ==> tri4(x) == tri4(x - 1) + 4 * x) by (nonlinear_arith); // @verif
    } // @verif
  if triangular_number_x4(i_ring) > hash {
    i_ring -= 1;
  } else if triangular_number_x4(i_ring + 1) <= hash {
    i_ring += 1;
  }
    proof { // @verif
      let x = i_ring as int; // @verif
      assert(tri4(x + 1) == tri4(x) + 4 * (x + 1)) by (nonlinear_arith); // @verif
    } // @verif
  i_ring
}

// ---- extracted from src/nested/mod.rs: div2_remainder
const fn div2_remainder(x: u64) -> (r: u64) // @verif
  ensures r == x % 2, // @verif
{ // @verif
    proof { assert(x & 1 == x % 2) by (bit_vector); } // @verif
  x & 1
}

// ---- extracted from src/nested/mod.rs: div4_quotient
const fn div4_quotient(x: u8) -> (r: u8) // @verif
  ensures r == x / 4, // @verif
{ // @verif
    proof { assert(x >> 2 == x / 4) by (bit_vector); } // @verif
  x >> 2
}

// ---- extracted from src/nested/mod.rs: div4_remainder
const fn div4_remainder(x: u8) -> (r: u8) // @verif
  ensures r == x % 4, // @verif
{ // @verif
    proof { assert(x & 3 == x % 4) by (bit_vector); } // @verif
  x & 3
}

// ---- extracted from src/nested/mod.rs: Layer::nside_time
impl Layer {
  fn nside_time(&self, i: u64) -> (r: u64) // @verif
  requires wf(*self), i <= 16, // @verif
  ensures r as nat == i as nat * pow2(self.depth as nat), i <= 4 ==> r as nat <= 4 * pow2(self.depth as nat), i <= 1 ==> r as nat <= pow2(self.depth as nat), // @verif
{ // @verif
    proof { // @verif
      lemma_n(self.depth as nat); // @verif
      assert(i * pow2(self.depth as nat) <= 16 * 0x2000_0000) by (nonlinear_arith) requires i <= 16, pow2(self.depth as nat) <= 0x2000_0000; // @verif
      lemma_u64_shl_is_mul(i, self.depth as u64); // @verif
      assert(i <= 4 ==> i * pow2(self.depth as nat) <= 4 * pow2(self.depth as nat)) by (nonlinear_arith); // @verif
      assert(i <= 1 ==> i * pow2(self.depth as nat) <= pow2(self.depth as nat)) by (nonlinear_arith); // @verif
    } // @verif
    i << self.depth
  }
}

// ---- extracted from src/nested/mod.rs: Layer::first_hash_in_eqr
impl Layer {
  fn first_hash_in_eqr(&self) -> (r: u64) // @verif
  requires wf(*self), // @verif
  ensures r as int == tri4(pow2(self.depth as nat) as int), // @verif
{ // @verif
    proof { // @verif
      let d = self.depth; let n = pow2(d as nat); // @verif
      lemma_n(d as nat); // @verif
      assert(d << 1 == 2 * d) by (bit_vector) requires d <= 29; // @verif
      assert(n * n <= 0x2000_0000 * 0x2000_0000) by (nonlinear_arith) requires 1 <= n <= 0x2000_0000; // @verif
      lemma_u64_shl_is_mul(1u64, (2 * d) as u64); // @verif
      let q = ((1_u64 << ((2 * d) as u8)) + self.nside as u64) as u64; // @verif
      assert(q == n * n + n); // @verif
      assert(q << 1 == q * 2) by (bit_vector) requires q <= 0x1000_0000_0000_0000u64; // @verif
      assert(2 * n * (n + 1) == (n * n + n) * 2) by (nonlinear_arith); // @verif
    } // @verif
    //   2*nside*(nside + 1)
    // = 2*[nside^2 + nside]
    ((1_u64 << (self.depth << 1)) + self.nside as u64) << 1
  }
}

// ---- extracted from src/nested/mod.rs: Layer::minus_nside_x_4nside
impl Layer {
  fn minus_nside_x_4nside(&self, i_ring: u64) -> (r: u64) // @verif
  requires wf(*self), pow2(self.depth as nat) <= i_ring, i_ring < 4 * pow2(self.depth as nat), // @verif
  ensures r as int == (i_ring as int - pow2(self.depth as nat) as int) * (4 * pow2(self.depth as nat) as int), // @verif
{ // @verif
    proof { // @verif
      let d = self.depth; let n = pow2(d as nat); // @verif
      lemma_n(d as nat); // @verif
      let x = (i_ring - self.nside as u64) as u64; // @verif
      assert(x * (4 * n) <= 0x8000_0000 * 0x8000_0000) by (nonlinear_arith) requires x <= 0x8000_0000, 4 * n <= 0x8000_0000; // @verif
      lemma_u64_shl_is_mul(x, (d + 2) as u64); // @verif
    } // @verif
    (i_ring - self.nside as u64) << (self.depth + 2)
  }
}

// ---- extracted from src/nested/mod.rs: Layer::div_by_nside_floor_u8
impl Layer {
  fn div_by_nside_floor_u8(&self, val: u64) -> (r: u8) // @verif
  requires wf(*self), val < 8 * pow2(self.depth as nat), // @verif
  ensures r as int == val as int / pow2(self.depth as nat) as int, r < 8, // @verif
{ // @verif
    proof { // @verif
      lemma_n(self.depth as nat); // @verif
      lemma_u64_shr_is_div(val, self.depth as u64); // @verif
      let n = pow2(self.depth as nat) as int; // @verif
      assert(val as int / n < 8) by (nonlinear_arith) requires 0 <= val as int, (val as int) < 8 * n, n >= 1; // @verif
    } // @verif
    (val >> self.depth) as u8
  }
}

// ---- extracted from src/nested/mod.rs: Layer::modulo_nside
impl Layer {
  fn modulo_nside(&self, val: u64) -> (r: u64) // @verif
  requires wf(*self), // @verif
  ensures r as int == val as int % pow2(self.depth as nat) as int, // @verif
{ // @verif
    proof { // @verif
      lemma_n(self.depth as nat); // @verif
      lemma_u64_low_bits_mask_is_mod(val, self.depth as nat); // @verif
      assert(low_bits_mask(self.depth as nat) == pow2(self.depth as nat) - 1) by { lemma_low_bits_mask_values(); reveal(low_bits_mask); } // @verif
    } // @verif
    val & self.nside_remainder_mask
  }
}

// ---- extracted from src/nested/mod.rs: depth0_hash_unsafe
fn depth0_hash_unsafe(i: u8, j: u8) -> (r: u8) // @verif
  requires i <= 4, j <= 4, 3 <= i + j <= 5, // @verif
  ensures r as int / 4 == 5 - (i + j), r as int % 4 == (if i + j == 5 { (i - 1) % 4 } else { i as int % 4 }), r < 12, // @verif
{ // @verif
    proof { // @verif
      let k: i8 = (5 - (i + j)) as i8; // @verif
      assert(k == 5_i8 - (i + j) as i8); // @verif
      assert(k << 2 == k * 4) by (bit_vector) requires 0 <= k <= 2; // @verif
      let km1: i8 = (k - 1) as i8; // @verif
      assert(km1 >> 7 == (if km1 == -1i8 { -1i8 } else { 0i8 })) by (bit_vector) requires -1 <= km1 <= 1; // @verif
      let m: i8 = ((i as i8) + (km1 >> 7)) as i8; // @verif
      assert(m & 3_i8 == (if m == -1i8 { 3i8 } else if m == 4i8 { 0i8 } else { m })) by (bit_vector) requires -1 <= m <= 4; // @verif
    } // @verif
  let k = 5_i8 - (i + j) as i8;
  (((k << 2) + ( ((i as i8) + ((k - 1) >> 7)) & 3_i8)) as u8)
}

// ---- extracted from src/nested/mod.rs: Layer::from_ring
impl Layer {
  fn from_ring(&self, hash: u64) -> (r: u64) // @verif
  requires wf(*self), hash < self.n_hash, // @verif
  ensures r < self.n_hash, ({ let p = decode_spec(*self, r); let n = pow2(self.depth as nat) as int; // @verif
     p.d0h < 12 && p.i < self.nside && p.j < self.nside && ring_index(n, p.d0h as int, p.i as int, p.j as int) == hash as int }), // @verif
{ // @verif
    proof { lemma_n(self.depth as nat); } // @verif
    let ghost n = pow2(self.depth as nat) as int; // @verif
    let ghost hash0 = hash as int; // @verif
    assert(self.nside as int == n && self.n_hash as int == 12 * n * n); // @verif
    assert(tri4(n) == 2 * n * n + 2 * n && 2 * tri4(n) <= 12 * n * n && 12 * n * n <= 12 * 0x2000_0000 * 0x2000_0000) by (nonlinear_arith) requires 1 <= n <= 0x2000_0000; // @verif
    assert(forall|x: u64| x <= 0x4000_0000_0000_0000u64 ==> #[trigger] (x << 1) == x * 2) by (bit_vector); // @verif
    assert(forall|x: i64| #[trigger] (x >> 1) * 2 <= x && x <= (x >> 1) * 2 + 1) by (bit_vector); // @verif
    assert(forall|x: u64| #[trigger] (x & 1) == x % 2) by (bit_vector); // @verif
    assert(forall|x: u64| x <= 0x1000_0000_0000_0000u64 ==> #[trigger] (x << 2) == x * 4) by (bit_vector); // @verif
    assert(forall|x: i64| 0 <= x <= 0x1000_0000_0000_0000i64 ==> #[trigger] (x << 2) == x * 4) by (bit_vector); // @verif
    assert(forall|x: u64| #[trigger] (x >> 1) == x / 2) by (bit_vector); // @verif
    let ghost sh = (self.depth + 2) as u64; // @verif
    assert(pow2(sh as nat) == 4 * n); // @verif
    assert forall|x: u64| #[trigger] (x >> sh) == x as nat / pow2(sh as nat) by { lemma_u64_shr_is_div(x, sh); } // @verif
    assert forall|x: u64| x * pow2(sh as nat) <= u64::MAX implies #[trigger] (x << sh) == x * pow2(sh as nat) by { lemma_u64_shl_is_mul(x, sh); } // @verif
    assert forall|a: int, b: int| 0 <= a && 0 < b implies b * (#[trigger] (a / b)) <= a && a < b * (a / b) + b && (a < 4 * b ==> a / b <= 3) && a / b >= 0 by { // @verif
      lemma_fundamental_div_mod(a, b); lemma_mod_bound(a, b); // @verif
      assert(a < 4 * b && b * (a / b) <= a ==> a / b <= 3) by (nonlinear_arith) requires b > 0; // @verif
      assert(a / b >= 0) by (nonlinear_arith) requires a < b * (a / b) + b, b > 0, a >= 0; // @verif
    } // @verif
    // 4*sum from i=1 to nside of i =  4 * nside(nside+1)/2 = 2*nside*(nside+1)
    let first_hash_in_eqr = self.first_hash_in_eqr();
    let first_hash_on_eqr_spc_transition = self.n_hash - first_hash_in_eqr; // == first_hash_on_eqr_spc_transition
    if hash < first_hash_in_eqr { // North polar cap
      // Solve 2*n(n+1) = x 
      //   => 2n^2+2n-x = 0 => b^2-4ac = 4+8x = 4(1+2x)
      //   => n = [-2+2*sqrt(1+2x)]/4 => n = [sqrt(1+2x) - 1] / 2
      //   => n^2+n-x/2 = 0 => b^2-4ac = 1 + 2x => n = [sqrt(1+2x) - 1] / 2
      // n - 1 = ring index
      // Here we may optimize by finding a good 'isqrt' implementation
      let i_ring: u64 = polar_cap_ring_index(hash);
      let n_in_ring: u64 = i_ring + 1;
      let i_in_ring = hash - triangular_number_x4(i_ring);
      let d0h = i_in_ring / n_in_ring;
      let h = (((self.nside as u64) << 1) - 2) as i64 - i_ring as i64;
      let l = ((i_in_ring - n_in_ring * d0h) << 1) as i64 - i_ring as i64;
    proof { // @verif
      let r0 = i_ring as int; let a = i_in_ring as int; let q = d0h as int; let rem = a - (r0 + 1) * q; // @verif
      assert(r0 < n) by (nonlinear_arith) requires 2 * r0 * (r0 + 1) <= hash0, hash0 < 2 * n * (n + 1), r0 >= 0, n >= 1; // @verif
      assert(tri4(r0 + 1) == tri4(r0) + 4 * (r0 + 1)) by (nonlinear_arith); // @verif
      assert(0 <= q <= 3 && 0 <= rem <= r0); // @verif
      assert(h as int == 2 * n - 2 - r0 && l as int == 2 * rem - r0); // @verif
      let ii = ((h + l) as i64 >> 1) as int; let jj = ((h - l) as i64 >> 1) as int; // @verif
      assert(ii == n - 1 - r0 + rem && jj == n - 1 - rem); // @verif
      assert(q / 4 == 0 && q % 4 == q); // @verif
      assert(ring_of(n, q, ii, jj) == r0) by (nonlinear_arith) requires q / 4 == 0, ii + jj == 2 * n - 2 - r0, ring_of(n, q, ii, jj) == n * (q / 4 + 2) - (ii + jj + 2); // @verif
      assert(ring_first(n, r0) == tri4(r0)); // @verif
      assert(rank_in_ring(n, q, ii, jj) == (r0 + 1) * q + rem); // @verif
      assert(ring_index(n, q, ii, jj) == hash0); // @verif
    } // @verif
      self.build_hash_from_parts (
        d0h as u8,
        ((h + l) >> 1) as u32,
        ((h - l) >> 1) as u32,
      )
    } else if hash >= first_hash_on_eqr_spc_transition { // South polar cap
      let hash = self.n_hash - 1 - hash; // start counting in reverse order from south polar cap
      let i_ring = polar_cap_ring_index(hash);
    assert(tri4(i_ring as int + 1) == tri4(i_ring as int) + 4 * (i_ring as int + 1)) by (nonlinear_arith); // @verif
      let n_in_ring = i_ring + 1;
      let i_in_ring = ((n_in_ring << 2) - 1) - (hash - triangular_number_x4(i_ring));
      let d0h = i_in_ring / n_in_ring;
      let h = i_ring as i64;
      let l = ((i_in_ring - n_in_ring * d0h) << 1) as i64 - i_ring as i64;
    proof { // @verif
      let hp = hash as int; // @verif
      assert(hp == 12 * n * n - 1 - hash0); // @verif
      let r0 = i_ring as int; let a = i_in_ring as int; let q = d0h as int; let rem = a - (r0 + 1) * q; // @verif
      assert(r0 < n) by (nonlinear_arith) requires 2 * r0 * (r0 + 1) <= hp, hp < 2 * n * (n + 1), r0 >= 0, n >= 1; // @verif
      assert(tri4(r0 + 1) == tri4(r0) + 4 * (r0 + 1)) by (nonlinear_arith); // @verif
      assert(0 <= q <= 3 && 0 <= rem <= r0); // @verif
      assert(h as int == r0 && l as int == 2 * rem - r0); // @verif
      let ii = ((h + l) as i64 >> 1) as int; let jj = ((h - l) as i64 >> 1) as int; // @verif
      assert(ii == rem && jj == r0 - rem); // @verif
      let dd = q + 8; // @verif
      assert(dd / 4 == 2 && dd % 4 == q); // @verif
      assert(ring_of(n, dd, ii, jj) == 4 * n - 2 - r0) by (nonlinear_arith) requires dd / 4 == 2, ii + jj == r0, ring_of(n, dd, ii, jj) == n * (dd / 4 + 2) - (ii + jj + 2); // @verif
      let rg = 4 * n - 2 - r0; // @verif
      assert(rg >= 3 * n - 1); // @verif
      assert(ring_first(n, rg) == 12 * n * n - tri4(r0 + 1)) by (nonlinear_arith) requires ring_first(n, rg) == 12 * n * n - 2 * (4 * n - 1 - rg) * (4 * n - rg), rg == 4 * n - 2 - r0; // @verif
      assert(rank_in_ring(n, dd, ii, jj) == (r0 + 1) * q + rem); // @verif
      assert(ring_index(n, dd, ii, jj) == hash0); // @verif
    } // @verif
      self.build_hash_from_parts (
        d0h as u8 + 8,
        ((h + l) >> 1) as u32,
        ((h - l) >> 1) as u32,
      )
    } else { // Equatorial region
      // Set origin of ring indexes at the center of small cell in north corner of base cell 4 (North to South direction)
      let mut i_ring = hash - first_hash_in_eqr;
      let mut i_in_ring = i_ring;
      // <=> /= 4*nside (number of hash per line) => count the number of line from first equatorial line
      i_ring >>= self.depth + 2;
    proof { // @verif
      let z = hash0 - first_hash_in_eqr as int; // @verif
      lemma_fundamental_div_mod(z, 4 * n); lemma_mod_bound(z, 4 * n); // @verif
      assert(i_ring as int == z / (4 * n)); // @verif
      assert(i_ring as int <= 2 * n - 2) by (nonlinear_arith) requires (4 * n) * (i_ring as int) <= z, z < 12 * n * n - 2 * (2 * n * n + 2 * n), n >= 1; // @verif
      assert(i_ring * pow2(sh as nat) <= z) by (nonlinear_arith) requires (4 * n) * (i_ring as int) <= z, pow2(sh as nat) == 4 * n; // @verif
    } // @verif
      // Substract number of hash in previous rings (-= n_rings * 4*nside)
      i_in_ring -= i_ring << (self.depth + 2);
      let l = (i_in_ring << 1) + div2_remainder(i_ring);
      // Set origin of h axis at center of small cell in south corner of base cell 4 (South to North direction)
      let h = (((self.nside as u64) << 1) - 2) - i_ring;
      // Rotation of -45
      let i_in_d0c = (h + l) >> 1;
      let j_in_d0c = (h as i64 - l as i64) >> 1;
      // Offset of 4*nside in j
      let j_in_d0c = (j_in_d0c + ((self.nside as i64) << 2)) as u64;
      let i_d0c = self.div_by_nside_floor_u8(i_in_d0c);
      let j_d0c = self.div_by_nside_floor_u8(j_in_d0c);
    proof { // @verif
      let f = first_hash_in_eqr as int; let rp = i_ring as int; let a = i_in_ring as int; let z = hash0 - f; // @verif
      assert(rp == z / (4 * n) && a == z - rp * (4 * n)); // @verif
      assert(0 <= a < 4 * n); // @verif
      assert(rp <= 2 * n - 2) by (nonlinear_arith) requires (4 * n) * rp <= z, z < 12 * n * n - 2 * (2 * n * n + 2 * n), n >= 1; // @verif
      assert(l as int == 2 * a + rp % 2 && h as int == 2 * n - 2 - rp); // @verif
      let bi = i_in_d0c as int; let bj = j_in_d0c as int; // @verif
      assert((h as int + l as int) % 2 == 0); // @verif
      assert(bi == (h as int + l as int) / 2 && bj == (h as int - l as int) / 2 + 4 * n && bi + bj == h as int + 4 * n); // @verif
      assert(0 <= bi && bi < 5 * n && 0 <= bj && bj < 5 * n); // @verif
      let ca = bi / n; let cb = bj / n; let i = bi - n * ca; let j = bj - n * cb; // @verif
      lemma_fundamental_div_mod(bi, n); lemma_fundamental_div_mod(bj, n); lemma_mod_bound(bi, n); lemma_mod_bound(bj, n); // @verif
      assert(i == bi % n && j == bj % n && 0 <= i < n && 0 <= j < n); // @verif
      assert(0 <= ca <= 4 && 0 <= cb <= 4) by (nonlinear_arith) requires n * ca <= bi, bi < 5 * n, n * cb <= bj, bj < 5 * n, ca >= 0, cb >= 0, n >= 1; // @verif
      let s = ca + cb; // @verif
      assert(n * s == n * ca + n * cb) by (nonlinear_arith) requires s == ca + cb; // @verif
      assert(3 <= s <= 5) by (nonlinear_arith) requires n * s == h as int + 4 * n - (i + j), 0 <= i + j <= 2 * n - 2, 0 <= h as int <= 2 * n - 2, n >= 1; // @verif
      let k = 5 - s; let idv = if s == 5 { (ca - 1) % 4 } else { ca % 4 }; let c = if k == 1 { 0int } else { 1int }; // @verif
      assert(ca >= 1 || s != 5); // @verif
      let m = 2 * idv + c - ca + cb - 4; // @verif
      assert(m == 0 || (m == -8 && k == 1 && ca == 4)); // @verif
      let x = n * (2 * idv + c) + (i - j); // @verif
      assert(i - j == (l as int - 4 * n) - (n * ca - n * cb)); // @verif
      assert(x == n * m + l as int) by (nonlinear_arith) requires x == n * (2 * idv + c) + (i - j), i - j == (l as int - 4 * n) - (n * ca - n * cb), m == 2 * idv + c - ca + cb - 4; // @verif
      assert(n * m == 0 || n * m == -8 * n) by (nonlinear_arith) requires m == 0 || m == -8; // @verif
      let xx = if x < 0 { x + 8 * n } else { x }; // @verif
      assert(xx == l as int); // @verif
      assert(n * (k + 2) - (i + j + 2) == n + rp) by (nonlinear_arith) requires k == 5 - s, n * s == h as int + 4 * n - (i + j), h as int == 2 * n - 2 - rp; // @verif
      assert(ring_first(n, n + rp) == tri4(n) + rp * (4 * n)); // @verif
      assert forall|dd: int| 0 <= dd < 12 && dd / 4 == k && dd % 4 == idv implies ring_index(n, dd, i, j) == hash0 by { // @verif
        assert(ring_of(n, dd, i, j) == n + rp); // @verif
        assert(rank_in_ring(n, dd, i, j) == xx / 2); // @verif
      } // @verif
    } // @verif
      self.build_hash_from_parts (
        depth0_hash_unsafe(i_d0c, j_d0c),
        self.modulo_nside(i_in_d0c) as u32,
        self.modulo_nside(j_in_d0c) as u32,
      )
    }
  }
}

// ---- extracted from src/nested/mod.rs: Layer::to_ring
impl Layer {
  fn to_ring(&self, hash: u64) -> (r: u64) // @verif
  requires wf(*self), hash < self.n_hash, // @verif
  ensures ({ let p = decode_spec(*self, hash); let n = pow2(self.depth as nat) as int; // @verif
     let rg = ring_of(n, p.d0h as int, p.i as int, p.j as int); let k = rank_in_ring(n, p.d0h as int, p.i as int, p.j as int); // @verif
     0 <= rg <= 4 * n - 2 && 0 <= k < ring_len(n, rg) && r as int == ring_first(n, rg) + k && (r as int) < 12 * n * n }), // @verif
{ // @verif
    // Number of isolatitude rings in a base cell: 
    //    nbr rings:   nr = 2 * nside - 1 
    // => index max: hmax = 2 * nside - 2
    // Index of ring at the NPC / EQR interface:
    //   i = nside - 1                                       (number of rings =     nside)
    // Index of ring at lat=0 (in the EQR): 
    //   i = nr = hmax + 1 =  = 2 * nside - 1 => always odd  (number of rings = 2 * nside)
    // Index of ring at the EQR / SPC interface:
    //   i = nr + nside = 3 * nside - 1                      (number of rings = 3 * nside)
    // We note h = x + y (<=> rotation 45 and scale sqrt(2))
    // North polar cap   base cells:   i =  hmax - h              = 2 * nside - 2 - (x + y)
    // Equatorial region base cells:   i = (hmax - h) +     nside = 3 * nside - 2 - (x + y)
    // South polar cap   base cells:   i = (hmax - h) + 2 * nside = 4 * nside - 2 - (x + y)
    let HashParts {d0h, i, j} = self.decode_hash(hash);
    proof { lemma_n(self.depth as nat); } // @verif
    let ghost n = pow2(self.depth as nat) as int; // @verif
    let h: u64 = i as u64 + j as u64;
    let l: i64 = i as i64 - j as i64;
    let i_d0h = div4_remainder(d0h) as u64;
    let j_d0h = div4_quotient(d0h) as u64;    assert(j_d0h <= 2);
    assert(self.nside as int == n); // @verif
    assert(d0h as int / 4 <= 2); // @verif
    assert((j_d0h as int + 2) * n >= 2 * n && (j_d0h as int + 2) * n <= 4 * n) by (nonlinear_arith) requires 0 <= j_d0h <= 2, n >= 1; // @verif
    let i_ring: u64 = self.nside_time(j_d0h + 2) - (h + 2);
    // Number of elements in isolatitude ring of index i (i in [0, 2*(2*nside - 1)]):
    // North polar cap: if (i < nside)         nj = 4 * i
    // South polar cap: if (i >= 3*nside - 1)  nj = 4 * h = 4*((4*nside-2) - i) 
    // Equatorial regi: if (ns <= i < 3*ns-1)  nj = 4 * nside
    // l = x - y; In a base cell, l in [-nside+1, nside-1] => 2*nside - 1 values
    // EQR: j = l / 2 + nside/2 (if not equatorial cell) + nside*(ipix%4) (special case if l<0 && baseCell=4)
    // NPC: j = l / 2 + (i + 1) / 2 + (i+1)*(ipix%4)
    // SPC: j = l / 2 + (h + 1) / 2 + (h+1)*(ipix%4)
    assert(i_ring as int == ring_of(n, d0h as int, i as int, j as int)) by (nonlinear_arith) // @verif
      requires i_ring as int == (j_d0h as int + 2) * n - (h as int + 2), j_d0h as int == d0h as int / 4, h as int == i as int + j as int; // @verif
    assert((l >> 1u8) * 2 <= l && l <= (l >> 1u8) * 2 + 1) by (bit_vector) requires -0x4000_0000i64 < l < 0x4000_0000i64; // @verif
    assert((l >> 1u8) as int == (l as int) / 2); // @verif
    let ghost l0 = l as int; let ghost h0 = h as int; let ghost id = i_d0h as int; let ghost jd = j_d0h as int; // @verif
    let first_isolat_index;
    let mut i_in_ring = (l >> 1u8); // Quotient such that: 1/2 = 0; -1/2 = -1
    let ghost rr = i_ring as int; // @verif
    assert(rr < n ==> jd == 0) by (nonlinear_arith) requires rr == (jd + 2) * n - (h0 + 2), h0 <= 2 * n - 2, jd >= 0, n >= 1; // @verif
    assert(rr >= 3 * n - 1 ==> jd == 2) by (nonlinear_arith) requires rr == (jd + 2) * n - (h0 + 2), h0 >= 0, jd <= 2, n >= 1; // @verif
    assert(jd == 2 ==> rr == 4 * n - 2 - h0) by (nonlinear_arith) requires rr == (jd + 2) * n - (h0 + 2); // @verif
    assert(3 * n == (3 as int) * n && 0 < 3 * n); // @verif
    assert(i_ring < 0x2000_0000 ==> i_ring * (i_ring + 1) <= 0x2000_0000 * 0x2000_0000) by (nonlinear_arith); // @verif
    assert(i_ring < 0x2000_0000 ==> (i_ring + 1) * i_d0h <= 0x2000_0000 * 3) by (nonlinear_arith) requires i_d0h <= 3; // @verif
    assert(forall|p: u64| p <= 0x0400_0000_0000_0000u64 ==> #[trigger] (p << 1) == p * 2) by (bit_vector); // @verif
    assert(forall|t: u64| #[trigger] (t >> 1u8) == t / 2) by (bit_vector); // @verif
    assert(2 * rr * (rr + 1) == (rr * (rr + 1)) * 2) by (nonlinear_arith); // @verif
    assert((h + 1) * i_d0h <= 0x4000_0000 * 3) by (nonlinear_arith) requires h < 0x4000_0000, i_d0h <= 3; // @verif
    assert(h0 <= n - 1 ==> tri4(h0 + 1) <= 12 * n * n) by (nonlinear_arith) requires 0 <= h0, n >= 1; // @verif
    assert(self.n_hash as int == 12 * n * n) by (nonlinear_arith) requires self.n_hash as int == 12 * n * n; // @verif
    assert(n <= rr && rr < 3 * n ==> (rr - n) * (4 * n) <= 0x8000_0000 * 0x8000_0000 && (rr - n) * (4 * n) >= 0) by (nonlinear_arith) requires 1 <= n <= 0x2000_0000; // @verif
    assert(tri4(n) <= 0x2000_0000 * 0x8000_0000) by (nonlinear_arith) requires 1 <= n <= 0x2000_0000; // @verif
    if i_ring < self.nside as u64 { // North polar cap + NPC/EQR tansition
      // sum from i = 1 to ringIndex of 4 * i = 4 * i*(i+1)/2 = 2 * i*(i+1)
      let ip1 = i_ring + 1;
      first_isolat_index = (i_ring * ip1) << 1;
      i_in_ring += ((ip1 >> 1u8) + ip1 * i_d0h) as i64;
    assert(first_isolat_index as int == ring_first(n, i_ring as int)); // @verif
    assert(l0 + i_ring as int == 2 * (n - 1 - j as int)); // @verif
    assert(i_in_ring as int == l0 / 2 + (i_ring as int + 1) / 2 + (i_ring as int + 1) * id); // @verif
    assert(i_in_ring as int == rank_in_ring(n, d0h as int, i as int, j as int)); // @verif
    assert((i_ring as int + 1) * id <= (i_ring as int + 1) * 3) by (nonlinear_arith) requires id <= 3, i_ring >= 0; // @verif
    assert(0 <= i_in_ring && (i_in_ring as int) < ring_len(n, i_ring as int)); // @verif
    } else if i_ring >= self.nside_time(3) - 1 { // South polar cap
      let ip1 = h + 1;
      first_isolat_index = self.n_hash - triangular_number_x4(ip1);
      i_in_ring += ((ip1 >> 1u8) + ip1 * i_d0h) as i64;
    assert(4 * n - 1 - i_ring as int == h0 + 1 && 4 * n - i_ring as int == h0 + 2); // @verif
    assert(first_isolat_index as int == ring_first(n, i_ring as int)); // @verif
    assert(l0 + h0 == 2 * (i as int)); // @verif
    assert(i_in_ring as int == l0 / 2 + (h0 + 1) / 2 + (h0 + 1) * id); // @verif
    assert(i_in_ring as int == rank_in_ring(n, d0h as int, i as int, j as int)); // @verif
    assert((h0 + 1) * id <= (h0 + 1) * 3) by (nonlinear_arith) requires id <= 3, h0 >= 0; // @verif
    assert(0 <= i_in_ring && (i_in_ring as int) < ring_len(n, i_ring as int)); // @verif
    } else { // Equatorial region
      // sum from i = 1 to nside of i
      first_isolat_index = self.first_hash_in_eqr() + self.minus_nside_x_4nside(i_ring); 
      i_in_ring += (self.nside_time(div2_remainder(j_d0h + 1)) >> 1u8) as i64;
      i_in_ring += self.nside_time(if d0h == 4 && l < 0 { 4 } else { i_d0h }) as i64;
    }
    assert(first_isolat_index as int == ring_first(n, rr)); // @verif
    proof { // @verif
    if n <= rr && rr < 3 * n - 1 { // @verif
      assert(rr == (jd + 2) * n - (h0 + 2)); // @verif
      assert(n * id >= 0 && (id >= 1 ==> n * id >= n) && n * id <= 3 * n) by (nonlinear_arith) requires 0 <= id <= 3, n >= 1; // @verif
      if jd == 1 { // @verif
        assert(n * (2 * id + 0) == 2 * (n * id)) by (nonlinear_arith); // @verif
        assert(id * n == n * id && (jd + 1) % 2 == 0) by (nonlinear_arith) requires jd == 1; // @verif
        assert(0 * pow2(self.depth as nat) == 0 && 4 * pow2(self.depth as nat) == 4 * n && id * pow2(self.depth as nat) == id * n) by (nonlinear_arith) requires n == pow2(self.depth as nat) as int; // @verif
        assert((0u64 >> 1u8) == 0u64) by (bit_vector); // @verif
        assert(i_in_ring as int == l0 / 2 + (if d0h == 4 && l0 < 0 { 4 * n } else { id * n })); // @verif
        assert(d0h == 4 <==> id == 0); // @verif
      } else { // @verif
        assert(n >= 2) by (nonlinear_arith) requires n >= 1, rr == (jd + 2) * n - (h0 + 2), n <= rr, rr < 3 * n - 1, 0 <= h0 <= 2 * n - 2, jd == 0 || jd == 2; // @verif
        if self.depth == 0 { lemma2_to64(); } // @verif
        assert(self.depth >= 1); // @verif
        lemma_n((self.depth - 1) as nat); // @verif
        assert(id * n == n * id && 1 * n == n) by (nonlinear_arith); // @verif
        assert(n == 2 * pow2((self.depth - 1) as nat)); // @verif
        assert(n * (2 * id + 1) == 2 * (n * id) + n) by (nonlinear_arith); // @verif
        assert(i_in_ring as int == l0 / 2 + n / 2 + n * id); // @verif
      } // @verif
    } // @verif
    } // @verif
    assert(i_in_ring as int == rank_in_ring(n, d0h as int, i as int, j as int)); // @verif
    assert(0 <= i_in_ring && (i_in_ring as int) < ring_len(n, rr)); // @verif
    assert(ring_first(n, rr) + ring_len(n, rr) <= 12 * n * n) by (nonlinear_arith) // @verif
      requires 0 <= rr <= 4 * n - 2, n >= 1, // @verif
        ring_first(n, rr) == (if rr < n { 2 * rr * (rr + 1) } else if rr < 3 * n - 1 { 2 * n * (n + 1) + (rr - n) * (4 * n) } else { 12 * n * n - 2 * (4 * n - 1 - rr) * (4 * n - rr) }), // @verif
        ring_len(n, rr) == (if rr < n { 4 * (rr + 1) } else if rr < 3 * n - 1 { 4 * n } else { 4 * (4 * n - 1 - rr) }); // @verif
    i_in_ring as u64 + first_isolat_index
  }
}


// composition over the two contracts above (hand-written two-line harness, NOT repository code):
// to_ring(from_ring(r)) == r for every depth and every RING index r. With to_ring's range contract this makes from_ring
// injective on the finite set [0, 12 nside^2), hence both maps bijections and mutually inverse.
fn ring_round_trip(s: &Layer, r: u64) -> (out: u64)
  requires wf(*s), r < s.n_hash,
  ensures out == r,
{
  let h = s.from_ring(r);
  s.to_ring(h)
}
// @CANARY
} // verus!
fn main() {}
