
// GENERATED on every run by /verif/lib/verus_extract.py from /repo's working tree -- do not edit.
use vstd::prelude::*;
verus! {

pub open spec fn tri4(n: int) -> int { 2 * n * (n + 1) }
/// first RING index of the iso-latitude ring r (from the north pole), any nside n: caps have 4(r+1) cells per ring, the band 4n
pub open spec fn ring_first(n: int, r: int) -> int {
  if r < n { 2 * r * (r + 1) } else if r < 3 * n { 2 * n * (n + 1) + (r - n) * (4 * n) } else { 12 * n * n - 2 * (4 * n - 1 - r) * (4 * n - r) }
}
pub open spec fn ok(nside: u32) -> bool { 1 <= nside <= 0x2000_0000u32 }

pub proof fn lemma_sizes(n: int)
  requires 1 <= n <= 0x2000_0000,
  ensures n * n <= 0x2000_0000 * 0x2000_0000, 12 * n * n <= 12 * 0x2000_0000 * 0x2000_0000, n * (5 * n + 1) <= 0x2000_0000 * (5 * 0x2000_0000 + 1),
          n * (5 * n - 1) >= 0, n * (n + 1) <= 0x2000_0000 * 0x2000_0001, 12 * (n * n) == 12 * n * n,
{
  assert(n * n <= 0x2000_0000 * 0x2000_0000) by (nonlinear_arith) requires 1 <= n <= 0x2000_0000;
  assert(n * (5 * n + 1) <= 0x2000_0000 * (5 * 0x2000_0000 + 1)) by (nonlinear_arith) requires 1 <= n <= 0x2000_0000;
  assert(n * (5 * n - 1) >= 0) by (nonlinear_arith) requires 1 <= n;
  assert(n * (n + 1) <= 0x2000_0000 * 0x2000_0001) by (nonlinear_arith) requires 1 <= n <= 0x2000_0000;
  assert(12 * (n * n) == 12 * n * n) by (nonlinear_arith);
}


// ---- extracted from src/ring/mod.rs: ring::n_hash
pub const fn n_hash(nside: u32) -> (r: u64) // @verif
  requires ok(nside), // @verif
  ensures r as int == 12 * (nside as int) * (nside as int), // @verif
{ // @verif
    proof { lemma_sizes(nside as int); let n = nside as int; assert(12 * n <= 12 * 0x2000_0000); assert((12 * n) * n == 12 * (n * n)) by (nonlinear_arith); assert((12 * n) * n <= 12 * 0x2000_0000 * 0x2000_0000) by (nonlinear_arith) requires 1 <= n <= 0x2000_0000; } // @verif
  let nside = nside as u64;
  12 * nside * nside
}

// ---- extracted from src/ring/mod.rs: ring::n_isolatitude_rings
pub const fn n_isolatitude_rings(nside: u32) -> (r: u32) // @verif
  requires ok(nside), // @verif
  ensures r as int == 4 * (nside as int) - 1, // @verif
{ // @verif
    proof { assert(nside << 2 == nside * 4) by (bit_vector) requires nside <= 0x2000_0000u32; } // @verif
  // Not yet stable in const fn: debug_assert!(nside > 0);
  (nside << 2) - 1
}

// ---- extracted from src/ring/mod.rs: ring::triangular_number_x4
pub(crate) const fn triangular_number_x4(n: u64) -> (r: u64) // @verif
  requires n <= 0x8000_0000u64, // @verif
  ensures r as int == tri4(n as int), // @verif
{ // @verif
    proof { // @verif
      assert(n * (n + 1) <= 0x8000_0000u64 * 0x8000_0001u64) by (nonlinear_arith) requires n <= 0x8000_0000u64; // @verif
      let p = (n * (n + 1)) as u64; // @verif
      assert(p << 1 == p * 2) by (bit_vector) requires p <= 0x4000_0000_8000_0000u64; // @verif
      assert(2 * n * (n + 1) == (n * (n + 1)) * 2) by (nonlinear_arith); // @verif
    } // @verif
  (n * (n + 1)) << 1
}

// ---- extracted from src/ring/mod.rs: ring::triangular_number_x4_u32
pub(crate) const fn triangular_number_x4_u32(n: u32) -> (r: u64) // @verif
  requires n <= 0x8000_0000u32, // @verif
  ensures r as int == tri4(n as int), // @verif
{ // @verif
    proof { // @verif
      let m = n as u64; // @verif
      assert(m * (m + 1) <= 0x8000_0000u64 * 0x8000_0001u64) by (nonlinear_arith) requires m <= 0x8000_0000u64; // @verif
      let p = (m * (m + 1)) as u64; // @verif
      assert(p << 1 == p * 2) by (bit_vector) requires p <= 0x4000_0000_8000_0000u64; // @verif
      assert(2 * m * (m + 1) == (m * (m + 1)) * 2) by (nonlinear_arith); // @verif
    } // @verif
  let n = n as u64;
  (n * (n + 1)) << 1
}

// ---- extracted from src/ring/mod.rs: ring::first_hash_in_eqr
pub const fn first_hash_in_eqr(nside: u32) -> (r: u64) // @verif
  requires ok(nside), // @verif
  ensures r as int == tri4(nside as int), // @verif
{ // @verif
  // Not yet stable in const fn: debug_assert!(nside > 0);
  triangular_number_x4(nside as u64)
}

// ---- extracted from src/ring/mod.rs: ring::first_hash_on_npc_eqr_transition
pub const fn first_hash_on_npc_eqr_transition(nside: u32) -> (r: u64) // @verif
  requires ok(nside), // @verif
  ensures r as int == tri4(nside as int - 1), // @verif
{ // @verif
  // Not yet stable in const fn: debug_assert!(nside > 0);
  triangular_number_x4((nside - 1) as u64)
}

// ---- extracted from src/ring/mod.rs: ring::first_hash_on_eqr_spc_transition
pub const fn first_hash_on_eqr_spc_transition(nside: u32) -> (r: u64) // @verif
  requires ok(nside), // @verif
  ensures r as int == 2 * (nside as int) * (5 * (nside as int) - 1), // @verif
{ // @verif
    proof { // @verif
      lemma_sizes(nside as int); // @verif
      let m = nside as u64; let p = (m * (5 * m - 1)) as u64; // @verif
      assert(m * (5 * m - 1) <= 0x2000_0000 * (5 * 0x2000_0000)) by (nonlinear_arith) requires 1 <= m <= 0x2000_0000; // @verif
      assert(p << 1 == p * 2) by (bit_vector) requires p <= 0x4000_0000_0000_0000u64; // @verif
      assert(2 * m * (5 * m - 1) == (m * (5 * m - 1)) * 2) by (nonlinear_arith); // @verif
    } // @verif
  let n = nside as u64;
  // 8n^2 + (2*n^2 - 2n) = 2n(5n - 1)
  (n * (5 * n - 1)) << 1
}

// ---- extracted from src/ring/mod.rs: ring::first_hash_in_spc
pub const fn first_hash_in_spc(nside: u32) -> (r: u64) // @verif
  requires ok(nside), // @verif
  ensures r as int == 2 * (nside as int) * (5 * (nside as int) + 1), // @verif
{ // @verif
    proof { // @verif
      lemma_sizes(nside as int); // @verif
      let m = nside as u64; let p = (m * (5 * m + 1)) as u64; // @verif
      assert(p << 1 == p * 2) by (bit_vector) requires p <= 0x4000_0000_0000_0000u64; // @verif
      assert(2 * m * (5 * m + 1) == (m * (5 * m + 1)) * 2) by (nonlinear_arith); // @verif
    } // @verif
  let n = nside as u64;
  // 8n^2 + (2*n^2 + 2n) = 2n(5n + 1)
  (n * (5 * n + 1)) << 1
}


// the region boundaries are the ring starts of the RING scheme and partition [0, 12 nside^2) (hand-written harness over the contracts)
fn boundaries(nside: u32)
  requires ok(nside),
{
  let a = first_hash_on_npc_eqr_transition(nside);
  let b = first_hash_in_eqr(nside);
  let c = first_hash_on_eqr_spc_transition(nside);
  let d = first_hash_in_spc(nside);
  let t = n_hash(nside);
  let nr = n_isolatitude_rings(nside);
  proof {
    let n = nside as int;
    assert(a as int == ring_first(n, n - 1) && b as int == ring_first(n, n) && c as int == ring_first(n, 3 * n - 1) && d as int == ring_first(n, 3 * n)) by (nonlinear_arith)
      requires n >= 1, a as int == tri4(n - 1), b as int == tri4(n), c as int == 2 * n * (5 * n - 1), d as int == 2 * n * (5 * n + 1);
    assert(0 <= a as int && a < b && b <= c && c < d && d <= t) by (nonlinear_arith)
      requires n >= 1, a as int == tri4(n - 1), b as int == tri4(n), c as int == 2 * n * (5 * n - 1), d as int == 2 * n * (5 * n + 1), t as int == 12 * n * n;
    // the strict caps (rings 0..n-2 and 3n..4n-2) have the same size; between them 2n+1 rings of 4n cells
    assert(t - d == a as int && d - b == (2 * n) * (4 * n) && b - a == 4 * n && d - c == 4 * n) by (nonlinear_arith)
      requires n >= 1, a as int == tri4(n - 1), b as int == tri4(n), c as int == 2 * n * (5 * n - 1), d as int == 2 * n * (5 * n + 1), t as int == 12 * n * n;
    assert(nr as int == 4 * n - 1);
  }
}
// @CANARY
} // verus!
fn main() {}
