from driver import Unit
LEVEL = "other"
HARNESS_FILES = ["verif_geom.rs"]
P = "nested::verif_geom::"
both = ("quick", "thorough"); th = ("thorough",)
DEPTHS = [0, 1, 2, 3, 8, 9, 16, 17, 24, 29]
MANIFEST = dict(
    category="other",
    text="Per listed depth and for EVERY cell / every position strictly inside the projected domain: (1) center_of_projected_cell(h) equals the integer geometry of the cell exactly (x = Xc/nside in [0,8), y = Yc/nside in [-2,2]) -- the quantity every accessor (center, sph_coo, vertex, vertices, vertices_map, path_*, grid) starts from; (2) hash_with_dxdy decomposed by contracts: shift_rotate_scale returns finite rotated coordinates in [0, 5.5 nside] (the obligation that refuted the original code at depth 0, finding D19), and, with shift_rotate_scale and proj as contract stubs, the rest of hash_with_dxdy (discretize, base_cell_coos, depth0_bits main arm incl. the base-cell-4 wrap, to_coos_in_base_cell, real codec) returns exactly the cell whose unit square in the rotated frame contains the position, with dx, dy the position relative to its south corner, in [0,1); (3) cell numbers >= 12*4^depth are rejected by a panic. On the upper borders of base cells (rare arms of depth0_bits) only range obligations are stated. Round trips through unproj/hash (libm inverse pairs), the 1e-13 rad claim and vertices consistency across accessors are NOT decided.",
    note="Bounded to listed depths {0,1,2,3,8,9,16,17,24,29} (quick: tail at depths 0 and 29, the other obligations at all ten); relies on C04/C18 for the codec and C17 for proj; the libm-dependent half of C03 is not decided.",
    technique="Kani per-depth full-domain harnesses (CBMC, IEEE-754 bit-precise) on the real accessors with proj / shift_rotate_scale as contract stubs, against the integer geometry of the projection plane",
)
EXPLANATION = "Per listed depth complete over all cells; depth list is the bound."
ASSUMPTIONS = ["accessors = unproj(centre +- offsets): unproj itself is C17 (wrappers only)", "hash(sph_coo(h,dx,dy)) == h and the 1e-13 rad recovery claim: NOT decided", "hash_with_dxdy discretisation: searched (thorough), not proved"]
TRUSTED_BASE = ["Kani 0.68 / CBMC 6.11 IEEE-754", "harness/verif_spec.rs integer geometry (cell_center)"]
def units():
    us = []
    for d in DEPTHS:
        us.append(Unit("geom_center_d%02d" % d, P + "geom_center_d%02d" % d, ["Layer::center_of_projected_cell", "Layer::decode_hash", "rotate45_scale2", "Layer::shift_from_small_cell_center_to_base_cell_center", "Layer::scale_to_proj_dividing_by_nside", "compute_base_cell_center_offsets_in_8x3_grid", "apply_base_cell_center_offsets", "Layer::check_hash"],
                       "depth %d, all cells: projected centre == integer geometry exactly; x in [0,8), y in [-2,2]" % d, timeout=900, level="B", bound="depth %d" % d))
        us.append(Unit("geom_panic_d%02d" % d, P + "geom_panic_d%02d" % d, ["Layer::center_of_projected_cell", "Layer::check_hash"], "depth %d: cell number >= 12*4^d rejected by a panic" % d, kind="must_panic", allowed_fail=[r"Wrong hash value: too large"], tiers=both if d in (0, 3, 29) else th, timeout=600))
        us.append(Unit("geom_srsfin_d%02d" % d, P + "geom_srsfin_d%02d" % d, ["Layer::shift_rotate_scale", "Layer::new (time_half_nside)"], "depth %d, every point of the projected domain: the rotated, scaled coordinates are finite and within [0, 5.5 nside] (this obligation refutes the original code at depth 0: -inf when a coordinate is exactly 0, finding D19)" % d, timeout=600, level="B", bound="depth %d" % d))
        us.append(Unit("geom_hdtail_d%02d" % d, P + "geom_hdtail_d%02d" % d, ["Layer::hash_with_dxdy", "discretize", "Layer::base_cell_coos", "Layer::depth0_bits (main arm)", "Layer::to_coos_in_base_cell", "Layer::build_hash", "(contract stub) proj", "(contract stub) Layer::shift_rotate_scale"],
                       "depth %d, every position strictly inside the projected domain: hash_with_dxdy returns a cell < 12*4^d whose unit square in the rotated frame contains the position, with dx, dy = position relative to its south corner, in [0,1)" % d, tiers=both if d in (0, 29) else th, timeout=1800, level="B", bound="depth %d" % d, extra=dict(no_native=True)))
        if d in (0, 1, 29):
            us.append(Unit("geom_srs_search_d%02d" % d, P + "geom_srs_d%02d" % d, ["Layer::shift_rotate_scale"], "depth %d: shift_rotate_scale == (u, v) * nside/2 exactly; time-bounded refutation search" % d, kind="search", tiers=th, timeout=1200))
        if d in (0, 3, 29):
            us.append(Unit("geom_hdxdy_search_d%02d" % d, P + "geom_hdxdy_d%02d" % d, ["Layer::hash_with_dxdy", "Layer::shift_rotate_scale", "discretize", "Layer::depth0_bits", "Layer::build_hash", "(contract stub) proj"], "depth %d: hash_with_dxdy cell < 12*4^d, offsets in [0,1], point in the base cell of the returned cell; time-bounded refutation search" % d, kind="search", tiers=th, timeout=5400, extra=dict(no_native=True)))
    return us
