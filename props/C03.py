from driver import Unit
LEVEL = "other"
HARNESS_FILES = ["verif_geom.rs"]
P = "nested::verif_geom::"
both = ("quick", "thorough"); th = ("thorough",)
DEPTHS = [0, 1, 2, 3, 8, 9, 16, 17, 24, 29]
MANIFEST = dict(
    category="other",
    text="Decided part: for each listed depth and EVERY cell, center_of_projected_cell(h) equals the integer geometry of the cell exactly (x = Xc/nside reduced to [0,8), y = Yc/nside in [-2,2]; power-of-two scaling is exact) -- the quantity every accessor (center, sph_coo, vertex, vertices, vertices_map, path_*, grid) starts from -- and cell numbers >= 12*4^depth are rejected by a panic. hash_with_dxdy's discretisation (shift_rotate_scale, depth0_bits arms) with proj as a contract stub is only a time-bounded refutation search in the thorough tier (CBMC did not finish in 400 s in three formulations). Round trips through unproj/hash (libm inverse pairs) and the 1e-13 rad claim are NOT decided.",
    note="Bounded to listed depths {0,1,2,3,8,9,16,17,24,29}; relies on C04/C18 for the codec; the libm-dependent half of C03 is not decided.",
    technique="Kani per-depth full-domain harnesses (CBMC) on the real center_of_projected_cell against the integer geometry; must-panic harnesses",
)
EXPLANATION = "Per listed depth complete over all cells; depth list is the bound."
ASSUMPTIONS = ["accessors = unproj(centre +- offsets): unproj itself is C17 (wrappers only)", "hash(sph_coo(h,dx,dy)) == h and the 1e-13 rad recovery claim: NOT decided", "hash_with_dxdy discretisation: searched (thorough), not proved"]
TRUSTED_BASE = ["Kani 0.68 / CBMC 6.11 IEEE-754", "harness/verif_spec.rs integer geometry (cell_center)"]
def units():
    us = []
    for d in DEPTHS:
        us.append(Unit("geom_center_d%02d" % d, P + "geom_center_d%02d" % d, ["Layer::center_of_projected_cell", "Layer::decode_hash", "rotate45_scale2", "Layer::shift_from_small_cell_center_to_base_cell_center", "Layer::scale_to_proj_dividing_by_nside", "compute_base_cell_center_offsets_in_8x3_grid", "apply_base_cell_center_offsets", "Layer::check_hash"],
                       "depth %d, all cells: projected centre == integer geometry exactly; x in [0,8), y in [-2,2]" % d, timeout=900, level="B", bound="depth %d" % d))
        us.append(Unit("geom_panic_d%02d" % d, P + "geom_panic_d%02d" % d, ["Layer::center_of_projected_cell", "Layer::check_hash"], "depth %d: cell number >= 12*4^d rejected by a panic" % d, kind="must_panic", allowed_fail=[r"Wrong hash value: too large"], tiers=both if d in (0, 3, 29) else th, timeout=600))
        us.append(Unit("geom_srsfin_d%02d" % d, P + "geom_srsfin_d%02d" % d, ["Layer::shift_rotate_scale", "Layer::new (time_half_nside)"], "depth %d, every point of the projected domain: the rotated, scaled coordinates are finite and within [0, 5.5 nside] (this obligation refutes the original code at depth 0: -inf when a coordinate is exactly 0, finding D19)" % d, timeout=600, level="B", bound="depth %d" % d))
        if d in (0, 1, 29):
            us.append(Unit("geom_srs_search_d%02d" % d, P + "geom_srs_d%02d" % d, ["Layer::shift_rotate_scale"], "depth %d: shift_rotate_scale == (u, v) * nside/2 exactly; time-bounded refutation search" % d, kind="search", tiers=th, timeout=1200))
        if d in (0, 3, 29):
            us.append(Unit("geom_hdxdy_search_d%02d" % d, P + "geom_hdxdy_d%02d" % d, ["Layer::hash_with_dxdy", "Layer::shift_rotate_scale", "discretize", "Layer::depth0_bits", "Layer::build_hash", "(contract stub) proj"], "depth %d: hash_with_dxdy cell < 12*4^d, offsets in [0,1], point in the base cell of the returned cell; time-bounded refutation search" % d, kind="search", tiers=th, timeout=5400, extra=dict(no_native=True)))
    return us
