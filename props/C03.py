from driver import Unit
LEVEL = "other"
HARNESS_FILES = ["verif_geom.rs"]
P = "nested::verif_geom::"
def units():
    us = []
    for n in ["geom_center_d00", "geom_center_d03", "geom_center_d29", "geom_panic_d03", "geom_hdxdy_d00", "geom_hdxdy_d03", "geom_hdxdy_d29"]:
        us.append(Unit(n, P + n, ["x"], "x", timeout=400, mem_gb=8, kind="must_panic" if "panic" in n else "proof", allowed_fail=[r"Wrong hash value: too large"], extra=dict(no_native=True)))
    return us
