from driver import Unit
LEVEL = "other"
HARNESS_FILES = ["verif_ringn.rs", "verif_ring.rs"]
P = "ring::verif_ringn::"
both = ("quick", "thorough"); th = ("thorough",)
NS_Q = [1, 2, 3, 5, 8, 1000, 536870911, 536870912]
NS_T = [1, 2, 3, 4, 5, 6, 7, 8, 12, 100, 255, 257, 1000, 1048577, 536870911, 536870912]
MANIFEST = dict(
    category="other",
    text="EVERY NSIDE in 1..=2^29 at once (Verus unit ringn_bounds_verus): the region-boundary functions (n_hash, n_isolatitude_rings, triangular_number_x4(_u32), first_hash_in_eqr, first_hash_on_npc_eqr_transition, first_hash_on_eqr_spc_transition, first_hash_in_spc), cut out of the working tree on every run, equal their closed forms without overflow and are the ring starts of the RING scheme (4i cells in polar ring i, 4 nside in band rings), strictly ordered in [0, 12 nside^2]. In addition, per listed NSIDE (powers of two or not, up to 2^29), for EVERY position of the projected domain -- the equatorial band and the polar gores, including positions numerically on or just outside a gore edge (what proj returns on the meridians k*pi/2) and x + 8 rounded to 8: ring hash < 12*nside^2, in-cell offsets dl, dh, dx, dy in [0,1], and no debug assertion, overflow or underflow can fail (this is the obligation that refuted the original code: finding D16, now repaired in /repo and re-checked on every run); out-of-range cell numbers must panic; the repaired polar-cap ring index used by ring::center_of_projected_cell has its contract (shared with C10). Bounded to the listed NSIDE values. That the returned cell contains the position, hash(center(h)) == h, ring ordering/sizes and sph_coo inversion for arbitrary NSIDE are NOT decided by a contract here (checked only natively while repairing D16).",
    note="Bounded to listed NSIDE (quick: 1,2,3,5,8,1000,2^29-1,2^29); proj replaced by its contract (a point of the net, C17).",
    technique="Verus (z3) contracts on the extracted region-boundary functions for every NSIDE; Kani per-NSIDE full-domain harnesses over IEEE-754 doubles (CBMC) on the real ring::hash with proj as a contract stub",
)
EXPLANATION = "Unit ringn_bounds_verus is unbounded in NSIDE (region-boundary arithmetic only). Each Kani unit is complete over positions for its NSIDE and region (band / caps); the quantifier over NSIDE is bounded to the list."
ASSUMPTIONS = ["proj contract: a point of the HEALPix net, possibly numerically just outside a gore edge (C17)", "containment of the position in the returned cell, centre round trip, ordering: NOT decided"]
TRUSTED_BASE = ["Verus 0.2026.09.13 + z3 (unit ringn_bounds_verus)", "Kani 0.68 / CBMC 6.11 IEEE-754"]
def units():
    us = []
    F = ["ring::hash", "ring::hash_with_dldh", "ring::dldh_to_dxdy", "ring::first_hash_in_eqr", "ring::triangular_number_x4", "ring::n_hash", "(contract stub) proj"]
    for n in NS_T:
        t = both if n in NS_Q else th
        us.append(Unit("ringn_hash_n%d" % n, P + "ringn_hash_n%d" % n, F, "nside %d, every position of the equatorial band: hash < 12 nside^2, offsets in [0,1], no arithmetic check fails" % n, tiers=t, timeout=900, level="B", bound="nside %d" % n, extra=dict(no_native=True)))
        us.append(Unit("ringn_caps_n%d" % n, P + "ringn_caps_n%d" % n, F, "nside %d, every position of the polar gores incl. numerically on/outside their edges: same" % n, tiers=t, timeout=900, level="B", bound="nside %d" % n, extra=dict(no_native=True)))
        if n in (1, 5, 1000, 536870912):
            us.append(Unit("ringn_panic_n%d" % n, P + "ringn_panic_n%d" % n, ["ring::center_of_projected_cell", "ring::check_hash"], "nside %d: cell number >= 12 nside^2 rejected by a panic (center, sph_coo, vertices all start with it)" % n, kind="must_panic", allowed_fail=[r"Wrong hash value: too large"], tiers=t, timeout=600))
    for n in (1, 2, 3, 5, 6):
        us.append(Unit("ringn_contains_n%d" % n, P + "ringn_contains_n%d" % n, F + ["ring::center_of_projected_cell", "ring::polar_cap_ring_index"], "nside %d: the centre of the returned cell is within 1/nside (L1, projection plane) of the position -- centre taken from the definition of the RING scheme, away from the glued gore edges; time-bounded refutation search" % n, kind="search", timeout=300, extra=dict(no_native=True)))
    for n in (1, 2, 3, 5):
        us.append(Unit("ringn_center_def_n%d" % n, P + "ringn_center_def_n%d" % n, ["ring::center_of_projected_cell", "ring::polar_cap_ring_index"], "nside %d, every cell: the crate's projected centre == the definition of the RING scheme (ring sizes, equal spacing from lon = 0, ring ordinate); search" % n, kind="search", timeout=300))
    VF = ["ring::n_hash", "ring::n_isolatitude_rings", "ring::triangular_number_x4", "ring::triangular_number_x4_u32", "ring::first_hash_in_eqr",
          "ring::first_hash_on_npc_eqr_transition", "ring::first_hash_on_eqr_spc_transition", "ring::first_hash_in_spc"]
    us.append(Unit("ringn_bounds_verus", "contracts/verus_ringn.py", VF,
                   "EVERY nside in 1..=2^29 (no list): the region-boundary functions equal their closed forms (12 n^2, 4n-1, 2k(k+1), 2n(n+1), 2(n-1)n, 2n(5n-1), 2n(5n+1)) without overflow; "
                   "they are the ring starts ring_first(n, n-1 | n | 3n-1 | 3n) of the RING scheme, strictly ordered inside [0, 12 n^2], caps of equal size, 4n cells per band ring",
                   engine="verus", level="P", timeout=600, extra=dict(spec="verus_ringn", rlimit=60), bound="none (all nside up to nside_max = 2^29)"))
    us.append(Unit("ringn_bounds_verus_canary", "contracts/verus_ringn.py", VF, "vacuity guard: a false claim under the same precondition must fail",
                   kind="canary", engine="verus", timeout=600, extra=dict(spec="verus_ringn", rlimit=60)))
    us.append(Unit("pcri_contract_lt_2p10", "nested::verif_ring::pcri_contract_lt_2p10", ["ring::polar_cap_ring_index"], "contract of the repaired polar-cap ring index used by ring::center_of_projected_cell: 2r(r+1) <= h < 2(r+1)(r+2), h < 2^10", level="B", bound="h < 2^10"))
    us.append(Unit("pcri_contract_2p53_2p62", "nested::verif_ring::pcri_contract_2p53_2p62", ["ring::polar_cap_ring_index"], "same, 2^53 <= h < 2^62 (huge NSIDE): time-bounded refutation search", kind="search", timeout=240))
    return us
