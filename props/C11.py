from driver import Unit
LEVEL = "other"
HARNESS_FILES = ["verif_ringn.rs", "verif_ring.rs"]
P = "ring::verif_ringn::"
both = ("quick", "thorough"); th = ("thorough",)
NS_Q = [1, 2, 3, 5, 8, 1000, 536870911, 536870912]
NS_T = [1, 2, 3, 4, 5, 6, 7, 8, 12, 100, 255, 257, 1000, 1048577, 536870911, 536870912]
MANIFEST = dict(
    category="other",
    text="The contract 'ring hash < 12*nside^2 with no arithmetic check failing, for every projected position' was written for the listed NSIDE values and is REFUTED on the unchanged tree: ring::hash underflows in the polar-cap index correction for positions near the meridians k*pi/2 (known finding D16, open, reproduced natively, a minimal repair was tried and is insufficient). A witness harness re-confirms the finding on every run (KNOWN-FINDING line). What remains claimed: out-of-range cell numbers must panic (listed NSIDE incl. non powers of two and 2^29), and the contract of the repaired polar-cap ring index used by ring::center_of_projected_cell (shared with C10). Centre round trip, ring ordering and sph_coo inversion for arbitrary NSIDE are NOT decided.",
    note="Mostly a recorded finding: the main obligation fails on the real code (D16). Remaining obligations are bounded to listed NSIDE.",
    technique="Kani per-NSIDE full-domain harnesses over IEEE-754 doubles (CBMC) on the real ring::hash with proj as a contract stub; witness harness for the recorded finding",
)
EXPLANATION = "Each band unit is complete over positions for its NSIDE; the quantifier over NSIDE is bounded to the list; caps excluded (D16)."
ASSUMPTIONS = ["proj contract: a point of the HEALPix net (C17)", "polar caps excluded: known finding D16 (open)", "hash(center(h)) == h, ring ordering/sizes, sph_coo inverse for non-power-of-two NSIDE: not decided"]
TRUSTED_BASE = ["Kani 0.68 / CBMC 6.11 IEEE-754"]
def units():
    us = []
    for n in (1, 5, 1000, 536870912):
        us.append(Unit("ringn_panic_n%d" % n, P + "ringn_panic_n%d" % n, ["ring::center_of_projected_cell", "ring::check_hash"], "nside %d: cell number >= 12 nside^2 rejected by a panic (center, sph_coo, vertices all start with it)" % n, kind="must_panic", allowed_fail=[r"Wrong hash value: too large"], timeout=600))
    us.append(Unit("pcri_contract_lt_2p10", "nested::verif_ring::pcri_contract_lt_2p10", ["ring::polar_cap_ring_index"], "contract of the repaired polar-cap ring index used by ring::center_of_projected_cell: 2r(r+1) <= h < 2(r+1)(r+2), h < 2^10", level="B", bound="h < 2^10"))
    us.append(Unit("pcri_contract_2p53_2p62", "nested::verif_ring::pcri_contract_2p53_2p62", ["ring::polar_cap_ring_index"], "same, 2^53 <= h < 2^62 (huge NSIDE): time-bounded refutation search", kind="search", timeout=240))
    us.append(Unit("ringn_hash_caps_n3_witness", P + "ringn_hash_caps_n3_witness", ["ring::hash_with_dldh"], "WITNESS of known finding D16: polar-cap rings, nside 3", kind="witness", known_finding="D16", timeout=600, extra=dict(no_native=True)))
    return us
