from driver import Unit

LEVEL = "proof"
HARNESS_FILES = ["verif_spec.rs", "verif_nb.rs"]
P = "nested::verif_nb::"
FN = ["Layer::neighbours", "Layer::neighbour", "Layer::inner_cell_neighbours", "Layer::edge_cell_neighbours",
      "Layer::neighbour_from_parts", "Layer::neighbour_base_cell_offset", "Layer::neighbour_from_shifted_coos",
      "Layer::ncp_neighbour", "Layer::eqr_neighbour", "Layer::spc_neighbour", "Layer::decode_hash", "Layer::pull_bits_appart",
      "Layer::build_hash_from_parts", "Layer::check_hash", "MainWind::{from_index,from_offsets,offset_se,offset_sw}",
      "MainWindMap::{put,put_opt,get}", "lib::{prev,next,oppo,iden,base_cell}"]
NFP = ["Layer::neighbour_from_parts", "Layer::neighbour_base_cell_offset", "Layer::neighbour_from_shifted_coos",
       "Layer::ncp_neighbour", "Layer::eqr_neighbour", "Layer::spc_neighbour", "MainWind::{from_index,from_offsets,offset_se,offset_sw}",
       "lib::{prev,next,oppo,iden,base_cell}", "(stub_verified) Layer::build_hash_from_parts"]
QUICK_COMPOSE = [0, 1, 8, 9, 17, 29]

MANIFEST = dict(
    category="proof",
    text="Modular proof per depth, all cells symbolic (no sampling). (1) contract of Layer::build_hash_from_parts == z-order encode, per z-order class; (2) contract of Layer::neighbour_from_parts for ALL (base cell, i, j, direction): Some(x) => x valid and shares with the cell exactly the edge (two named vertices) or the single vertex the direction names, None <=> corner at one of the 8 three-cell points -- against an integer vertex-sharing oracle of the glued HEALPix net, independent of every table of the crate; (3) neighbours(h,c) and neighbour(h,dir) equal neighbour_from_parts of the decoded cell for every direction (inner bit-trick path and border path); (4) at depths 0..3 the end-to-end statement with an arbitrary second cell (exact set, count 8/7/6, symmetry); (5) out-of-range cell numbers must panic. Quick: depths 0-3 and 29 for (2), {0,1,2,3,8,9,16,17,29} for (3),(5); thorough: all 30 depths.",
    note="Trusts the gluing rule of the HEALPix net encoded in verif_spec::canon and the counting lemma 'a vertex is shared by 4 cells, 3 at the eight special points' beyond depth 3 (machine-checked for depths 0..3 by nb_exact); Kani/CBMC.",
    technique="Kani function contracts (proof_for_contract + stub_verified) and full-domain per-depth harnesses (CBMC) on the real neighbour code against an independent integer oracle",
)
EXPLANATION = ("Every unit quantifies over ALL cells of its depth (and all directions): complete for that depth. The quantifier over depth is closed by the thorough tier (30 depths); "
               "the quick tier proves depths 0-3 and 29 of the geometric contract and both sides of every z-order class border for the composition. "
               "For depth >= 6 the geometric contract is split into one query per direction (a single query did not finish in 15 min at depth 16/29; the split ones take 2-5 min).")
ASSUMPTIONS = ["two cells touch on the sphere iff they share a canonical vertex of the glued HEALPix net (verif_spec::canon); argued in DESIGN.md §4, not machine-checked",
               "counting lemma (each net vertex belongs to 4 cells, 3 at the eight three-cell points) closes 'no neighbour is missing' from the per-direction contract; machine-checked end-to-end only for depths 0..3 (nb_exact_*)",
               "Layer::new(depth) is used directly (the constructor get_or_create calls); the lazy static cache is C20's subject"]
TRUSTED_BASE = ["Kani 0.68 / CBMC 6.11", "harness/verif_spec.rs integer geometry (cell_center, canon, shared_mask)"]


def units():
    us = []
    both = ("quick", "thorough")
    th = ("thorough",)
    for nm, cl in (("d0", "depth 0"), ("small", "depths 1..=8"), ("mediu", "depths 9..=16"), ("large", "depths 17..=29")):
        us.append(Unit("bhfp_contract_" + nm, P + "bhfp_contract_" + nm, ["Layer::build_hash_from_parts", "Layer::build_hash", "ZOrderCurve::ij2h"],
                       "contract: build_hash_from_parts(b,i,j) == (b << 2d) | interleave(i,j), %s symbolic, all b<12, i,j<nside" % cl, timeout=300))
    for d in range(30):
        dd = "%02d" % d
        tq = both if d in QUICK_COMPOSE else th
        us.append(Unit("nb_compose_d" + dd, P + "nb_compose_d" + dd, FN, "depth %d: neighbours(h,c).get(dir) and neighbour(h,dir) == neighbour_from_parts(decode(h),dir), all cells, 9 directions, centre iff requested" % d, tiers=tq, timeout=3600, mem_gb=6))
        us.append(Unit("nb_panic_d" + dd, P + "nb_panic_d" + dd, ["Layer::neighbours", "Layer::neighbour", "Layer::check_hash"], "depth %d: cell number >= 12*4^d rejected by a panic on every path (neighbours and neighbour)" % d, kind="must_panic", allowed_fail=[r"Wrong hash value: too large"], tiers=tq, timeout=600))
        if d <= 5:
            us.append(Unit("nfp_label_d" + dd, P + "nfp_label_d" + dd, NFP, "depth %d: contract of neighbour_from_parts vs vertex-sharing oracle, all cells x 9 directions" % d, tiers=both if d <= 3 else th, timeout=900))
        else:
            for k in range(9):
                us.append(Unit("nfp_label_d%s_k%d" % (dd, k), P + "nfp_label_d%s_k%d" % (dd, k), NFP, "depth %d, direction index %d: contract of neighbour_from_parts vs vertex-sharing oracle, all cells" % (d, k), tiers=both if d == 29 else th, timeout=1500))
        if d <= 3:
            us.append(Unit("nb_exact_d" + dd, P + "nb_exact_d" + dd, FN, "depth %d end to end: neighbours(H) == exactly the cells sharing a vertex with H (arbitrary second cell), labels, count 8/7/6" % d, tiers=both if d <= 0 else th, timeout=1500))
            us.append(Unit("nb_sym_d" + dd, P + "nb_sym_d" + dd, FN, "depth %d: symmetry of the relation on the real code; neighbour()==neighbours() for 9 directions" % d, tiers=both if d <= 1 else th, timeout=900))
    for d in (0, 3, 29):
        us.append(Unit("nb_canary_d%02d" % d, P + "nb_canary_d%02d" % d, FN, "vacuity guard", kind="canary", tiers=both if d != 29 else th, timeout=900))
    return us
