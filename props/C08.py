from bmoc_common import *
LEVEL = "other"
MANIFEST = dict(
    category="other",
    text="Bounded stand-in (labelled bounded, not proof) built from proved contracts: the operators run on the REAL code with symbolic well-formed operands (symbolic depth_max 0..3 each, symbolic cells and flags) and are compared, for a universally quantified deepest cell, with the documented three-valued tables (not: 0<->2,1; and: min; or: max; xor: table). Callees are replaced by contracts: the builder by 'append the encoded cell', go_up/go_down by tile contracts whose refinement by the real functions is proved separately (depth_max <= 3) and dd_4_go_up's contract for all depths. Bound: number of entries per operand (and: up to 2x2; or/xor: up to 1x1; not: up to 3) -- symbolic execution of the nested iterator loops of or/xor does not finish beyond that.",
    note="Bounded in the number of entries; unbounded BMOCs are not claimed. Ghost builder and tile contracts are the trusted interface (listed); Vec growth is not verified.",
    technique="Kani contract-stubbed harnesses (CBMC) on the real operators, bounded operand size; callee contracts proved separately",
)
EXPLANATION = "Every unit is complete over contents/flags/depths for its stated operand sizes; the sizes are the bound. proved_units lists leaf contracts that hold without bound (dd_4_go_up)."
ASSUMPTIONS = ["operand size bound as stated per unit (coverage.bounded_units)", "builder contract (append) and go_up/go_down tile contracts as trusted interface between harnesses"]
def units():
    us = refinement_units()
    for (na, nb) in ((0, 0), (1, 0), (0, 1), (1, 1)):
        for op in ("and", "or", "xor"):
            us.append(op_unit(op, na, nb, False, both))
    for (na, nb) in ((2, 1), (1, 2)):
        us.append(op_unit("and", na, nb, False, both))
    us.append(op_unit("and", 2, 2, False, th, 1800))
    for (na, nb) in ((2, 1), (1, 2)):
        for op in ("or", "xor"):
            us.append(op_unit(op, na, nb, False, th, 7200))
    for n in (0, 1, 2):
        us.append(not_unit(n, False, both))
    for n in (0, 1, 2, 3):
        us.append(Unit("bmoc_nico_%d" % n, P + "bmoc_nico_%d" % n, ["BMOC::not_in_cell_4_or", "consume_while_overlapped_and_partial", "dd_4_go_up", "is_in"] + STUBS,
                       "contract of not_in_cell_4_or: partial coarse cell, first full cell inside, %d further entries (any depth/flag, inside or after): fills the coarse cell exactly, pointwise maximum inside, nothing outside, returns the first cell after it" % n,
                       tiers=both if n <= 2 else th, timeout=900, mem_gb=8, level="B", bound="%d further entries, depth_max <= 3" % n))
    us.append(not_unit(3, False, th, 1800))
    us.append(not_unit(1, True, th, 1800))
    return us
