from driver import Unit
LEVEL = "other"
HARNESS_FILES = ["verif_poly.rs", "verif_bmoc.rs"]
P = "nested::verif_poly::"
MANIFEST = dict(
    category="other",
    text="Only the domain guard is decided: for every depth and every semi-major axis a >= pi/2 (+inf included), whatever the centre, b and position angle, elliptical_cone_coverage_internal -- the function both the plain and the custom (delta_depth) variants call first -- panics on every path. Centre kept, circular case soundness and tightness go through Ellipse/ProjSIN quadratic-form algebra over trig values: NOT decided.",
    note="NaN semi-major axis is outside the property's stated domain (a >= pi/2 is false for NaN) and is not claimed.",
    technique="Kani must-panic harness (CBMC) on the real guard",
)
EXPLANATION = "Single must-panic obligation over all doubles >= pi/2 and all depths."
ASSUMPTIONS = ["all geometric claims of C13 NOT decided"]
TRUSTED_BASE = ["Kani 0.68 / CBMC 6.11"]
def units():
    # a structural harness of the small-ellipse branch (geometry predicates as arbitrary answers, builder as contract;
    # harness/verif_poly.rs ellipse_small_*) did not finish in CBMC in 15 min (Vec collect/sort/dedup): not registered
    return [Unit("ellipse_guard_must_panic", P + "ellipse_guard_must_panic", ["Layer::elliptical_cone_coverage_internal"], "a >= pi/2 rejected by a panic on every path, every depth", kind="must_panic", allowed_fail=[r"Unable to handle ellipses"], timeout=600)]
