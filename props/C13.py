from driver import Unit
LEVEL = "other"
HARNESS_FILES = ["verif_poly.rs", "verif_bmoc.rs"]
P = "nested::verif_poly::"
MANIFEST = dict(
    category="other",
    text="Decided: (1) the domain guard: for every depth and every semi-major axis a >= pi/2 (+inf included), whatever the centre, b and position angle, elliptical_cone_coverage_internal -- the function both the plain and the custom (delta_depth) variants call first -- panics on every path; (2) the structure of the real recursion elliptical_cone_coverage_recur with EllipticalCone::{contains_cone,contains,overlap_cone} replaced by ARBITRARY answers over a 2-level tree, cell centres / vertices by tags and the builder by its verified tracker contract: full iff contains_cone on the path or reached with 4 vertices contained, partial iff reached otherwise, dropped otherwise, strictly increasing disjoint pushes (well-formedness), threshold index = recursion level. Centre kept, circular case soundness and tightness go through Ellipse/ProjSIN quadratic-form algebra over trig values: NOT decided.",
    note="NaN semi-major axis is outside the property's stated domain (a >= pi/2 is false for NaN) and is not claimed.",
    technique="Kani must-panic harness (CBMC) on the real guard; Kani bounded harnesses on the real recursion against its structural contract (geometric predicates as arbitrary-answer stubs, builder as contract stub)",
)
EXPLANATION = "Must-panic obligation over all doubles >= pi/2 and all depths; structural units bounded in depth difference (<= 2) with every geometric answer symbolic."
ASSUMPTIONS = ["all geometric claims of C13 NOT decided (EllipticalCone predicates answer arbitrarily in the structural units)"]
TRUSTED_BASE = ["Kani 0.68 / CBMC 6.11", "ghost builder tracker (C08)"]
def units():
    # a structural harness of the small-ellipse branch (geometry predicates as arbitrary answers, builder as contract;
    # harness/verif_poly.rs ellipse_small_*) did not finish in CBMC in 15 min (Vec collect/sort/dedup): not registered
    SM = ["Layer::elliptical_cone_coverage_internal (small-ellipse branch)", "Layer::neighbours", "MainWindMap::values_vec", "(arbitrary-answer stubs) EllipticalCone::{contains,overlap_cone}, Layer::{hash,center}, best_starting_depth", "(contract stub) BMOCBuilderUnsafe::{new,push}"]
    small = [Unit("ellipse_small_d%d_ds%d" % (d, ds), P + "ellipse_small_d%d_ds%d" % (d, ds), SM,
                  "requested depth %d, starting depth %d, every centre cell and EVERY assignment of the geometric answers: the small-ellipse branch pushes valid, strictly increasing, partial cells of the requested depth, each the ancestor of the centre cell or of one of its neighbours at the starting depth" % (d, ds),
                  timeout=2400, mem_gb=10, level="B", bound="depth %d, starting depth %d" % (d, ds), extra=dict(no_native=True, kani_args=["--no-assert-contracts"])) for (d, ds) in ((1, 1), (1, 2), (0, 2))]
    rec = [Unit("ellipse_recur_delta%d" % k, P + "ellipse_recur_delta%d" % k, ["Layer::elliptical_cone_coverage_recur", "(tag stubs) nested::get_or_create, Layer::center, Layer::vertices", "(arbitrary-answer stubs) EllipticalCone::{contains_cone,contains,overlap_cone}", "(contract stub) BMOCBuilderUnsafe::{new,push}"],
                "elliptical descent contract, requested depth = start + %d, EVERY assignment of the geometric answers (21-cell tree): a deepest cell is full iff contains_cone answered on its path or it was reached with its 4 vertices contained; partial iff reached and not full; absent otherwise; pushes ordered; threshold index = recursion level" % k,
                timeout=1500, mem_gb=8, level="B", bound="depth difference %d" % k, extra=dict(no_native=True)) for k in (0, 1, 2)]
    probe = [Unit('sort_stub_probe', P + 'sort_stub_probe', ['(model stub) <[u64]>::sort_unstable'], 'the selection-sort stand-in used for core::slice::sort_unstable in the small-ellipse units is in effect and sorts', timeout=300, level='B', bound='3 elements', extra=dict(no_native=True))]
    # small-ellipse units (ellipse_small_*, sort_stub_probe) are NOT registered: with core sort replaced by a model they get through
    # symbolic execution (35 min, 10 GB each) but CBMC then reports failed preconditions of __rust_dealloc on the in-place
    # `into_iter().filter().map().collect()` Vec of the branch -- a failure of the memory model of the collect specialisation I could not
    # attribute to the code (the same calls run clean natively and under the test suite): a check that alarms on the unchanged tree
    # without a replayable input is not sound, so it is removed rather than loosened. (collect_probe in verif_poly.rs shows that the
    # collect / sort-model / dedup / consuming loop verify in isolation: the artefact is elsewhere and was not located.)
    return rec + [Unit("ellipse_guard_must_panic", P + "ellipse_guard_must_panic", ["Layer::elliptical_cone_coverage_internal"], "a >= pi/2 rejected by a panic on every path, every depth", kind="must_panic", allowed_fail=[r"Unable to handle ellipses"], timeout=600)]
