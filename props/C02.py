from driver import Unit
LEVEL = "other"
HARNESS_FILES = ["verif_hash.rs", "verif_nb.rs"]
P = "nested::verif_hash::"
both = ("quick", "thorough"); th = ("thorough",)
QUICK = [0, 1, 2, 7, 8, 15, 16, 17, 25, 28]
MANIFEST = dict(
    category="other",
    text="For each adjacent pair of depths (d, d+1) and EVERY in-base-cell position (d0h,l,h) allowed by the trig-layer contract (the depth-independent function both layers call, replaced by a memoised contract stub so that both read the same triple): hash_d == hash_{d+1} >> 2, bit for bit, including positions exactly on cell borders and on the clamped base-cell border, at depth 0 (exponent trick with -1<<52) and across the z-order class borders 8/9 and 16/17. Adjacent pairs compose to every pair d < d'. Quick: 10 pairs; thorough: all 29.",
    note="Relies on the trig-layer contract of C01 (depth independence is structural: d0h_lh_in_d0c is an associated function without self). Real codec (LUT) is used on both sides.",
    technique="Kani per-pair harnesses (CBMC, IEEE-754 bit-precise) on the real hash with the trig layer as a memoised contract stub",
)
EXPLANATION = "Each unit is complete for its pair of depths; the quantifier over pairs is closed by the thorough tier."
ASSUMPTIONS = ["trig-layer contract of C01 (u, v in [+0, 2]); both depths call the same depth-independent function"]
TRUSTED_BASE = ["Kani 0.68 / CBMC 6.11 IEEE-754"]
def units():
    us = []
    for d in range(29):
        us.append(Unit("hash_prefix_d%02d" % d, P + "hash_prefix_d%02d" % d, ["Layer::hash", "Layer::hash_v2", "Layer::new (time_half_nside)", "Layer::build_hash_from_parts", "(contract stub) Layer::d0h_lh_in_d0c"],
                       "depths %d/%d: hash_d == hash_(d+1) >> 2 for every in-base-cell position" % (d, d + 1), tiers=both if d in QUICK else th, timeout=900, level="B", bound="pair (%d,%d)" % (d, d + 1), extra=dict(no_native=True)))
    return us
