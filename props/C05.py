from cone_common import *
LEVEL = "other"
MANIFEST = dict(
    category="other",
    text="Conditional and bounded: the claim 'no touched cell is dropped' is split into (L1) the threshold lemma of to_shs_min_max (a centre within radius + cell size passes the keep/descend test, also when radius + cell size exceeds pi) -- searched, not proved; (L2) the descent contract of cone_coverage_approx_recur, proved for depth differences 0..2 over every assignment of centre distances and thresholds (real recursion, centre/distance abstracted, builder as contract); (G1,G2) the geometric lemmas 'a cell lies within its largest centre-to-vertex distance of its centre' and 'a cone below the tabulated limit fits in 9 cells' are ASSUMED (C16's undecidable half). The start-cell selection (cone_coverage_approx_internal: Vec collect/sort/dedup, libm) is not verified; its two defects found by reading and native replay (D3, D15) are repaired in /repo.",
    note="Not a proof of C05: geometric lemmas assumed, threshold lemma searched only, start-cell selection unverified, depth difference bounded by 2.",
    technique="Kani contract-stubbed harness (CBMC) on the real recursive descent with abstract distances; time-bounded refutation search for the float threshold lemma",
)
EXPLANATION = "Bounded (depth difference <= 2) and conditional on assumed geometric lemmas; see text."
ASSUMPTIONS = ["G1: every point of a cell is within largest_center_to_vertex_distance of its centre (not decided)", "G2: a cone of radius < SMALLER_EDGE2OPEDGE_DIST[d] is inside the centre cell and its 8 neighbours at depth d (not decided)",
               "haversine shs is monotone in the true angular distance on [0, pi]", "cone_coverage_approx_internal's start-cell selection (neighbours of the centre cell, filtering, sort/dedup) not verified"]
def units():
    table = [Unit("bsd_table_strictly_decreasing", "verif_c16::bsd_table_strictly_decreasing", ["SMALLER_EDGE2OPEDGE_DIST"], "start-depth table (C05 anchor): strictly decreasing, each limit more than twice the next, ratios decreasing towards 2 (transcription guard; the geometric meaning of the entries is not decided)", level="P"),
             Unit("bsd_contract", "verif_c16::bsd_contract", ["best_starting_depth"], "best_starting_depth(r) = deepest depth whose limit exceeds r, all doubles (shared with C16)", level="P")]
    return recur_units() + [threshold_unit(), threshold_struct_unit(), full_flag_unit()] + table
