from bmoc_common import *
LEVEL = "other"
MANIFEST = dict(
    category="other",
    text="Encoding: build_raw_value / Cell::new / get_depth / get_hash_from_delta_depth / is_partial are proved mutually inverse for every depth_max <= 29, depth, hash and flag (complete), raw order == z-order. Well-formedness of producers is a postcondition of every operator/builder harness (C07, C08, C15: valid entries, strictly increasing, disjoint). Views (bounded: <= 2-3 entries, depth_max <= 2): cell iterator == entries; flat_iter / flat_iter_cell enumerate exactly the covered deepest cells, ascending, without duplicates, flags == state, length == deep_size == size_hint; to_ranges disjoint, non-adjacent, ascending, union == covered set.",
    note="Views bounded in entries/depth; to_flat_array (Vec of symbolic capacity) not decided; 'all BMOCs reachable through the API' is reduced to the per-producer well-formedness postconditions of C05/C07/C08/C15 harnesses.",
    technique="Kani full-domain harnesses for the encoding (complete) and bounded harnesses for the views (CBMC) on the real code",
)
EXPLANATION = "Encoding units are complete proofs; view units are bounded stand-ins (entries, depth)."
ASSUMPTIONS = ["reachability of BMOCs through the API is covered producer by producer (operators, builders), not as sequences", "to_flat_array not decided"]
def units():
    us = [
        Unit("bmoc_encoding_inverse", P + "bmoc_encoding_inverse", ["build_raw_value", "Cell::new", "get_depth", "get_hash_from_delta_depth", "is_partial"], "Cell::new(build_raw_value(d,h,f,dmax)) == (d,h,f); accessors agree; raw order == z-order; all dmax<=29, d<=dmax, h<12*4^d", level="P"),
        Unit("bmoc_decode_encode", P + "bmoc_decode_encode", ["Cell::new", "build_raw_value"], "every valid raw value decodes to an in-range cell that re-encodes to itself", level="P"),
        Unit("bmoc_encoding_canary", P + "bmoc_encoding_canary", ["Cell::new"], "vacuity guard", kind="canary"),
    ]
    for n in (0, 1, 2):
        us.append(Unit("bmoc_views_%d" % n, P + "bmoc_views_%d" % n, ["BMOC::deep_size", "BMOC::into_iter", "BMOCIter::next", "BMOC::flat_iter", "BMOCFlatIter::{new,next,next_cell,size_hint}", "BMOC::flat_iter_cell", "BMOCFlatIterCell::{new,next,next_cell}"],
                       "%d entries, depth_max <= 2: deep_size, cell iterator, flat iterators describe the same set of deepest cells (sorted, no duplicates, flags == state)" % n, timeout=900, mem_gb=8, level="B", bound="%d entries, depth_max <= 2" % n))
    for n in (0, 1, 2, 3):
        us.append(Unit("bmoc_ranges_%d" % n, P + "bmoc_ranges_%d" % n, ["BMOC::to_ranges", "nested::to_range"], "%d entries, depth_max <= 2: ranges ascending, disjoint, non-adjacent, union == covered set" % n, timeout=900, mem_gb=8, level="B", bound="%d entries, depth_max <= 2" % n, tiers=both if n < 3 else th))
    us.append(op_unit("and", 1, 1, False, both))
    return us
