from driver import Unit
LEVEL = "other"
HARNESS_FILES = ["verif_hash.rs", "verif_nb.rs"]
P = "nested::verif_hash::"
both = ("quick", "thorough"); th = ("thorough",)
QUICK = [0, 1, 2, 3, 8, 9, 16, 17, 26, 29]
MANIFEST = dict(
    category="other",
    text="hash = trig layer ; discretisation tail ; z-order codec, joined by contracts. (1) xpm1_and_q: for every double |lon| <= 200 the quarter is the right one and the in-quarter coordinate is in [-1,1] (complete; this is the obligation the original code failed for |lon| >= 2pi). (2) trig layer d0h_lh_in_d0c with cos/sin replaced by range/threshold facts: base cell < 12, row consistent with the latitude region, rotated coordinates u=h+l, v=h-l in [+0,2] -- proved for the equatorial region, time-bounded refutation search in the polar caps (one double product; CBMC does not finish); in the equatorial region the base cell is proved to be one of the four base cells meeting the longitude quarter (integers only), the exact position oracle (l, h relative to the base-cell centre) and the quadrant mapping are searches. (3) tail, per depth, for EVERY triple allowed by (2): hash < 12*4^d, base cell kept, and containment in strip form i*s <= u < (i+1)*s, j*s <= v < (j+1)*s (s = 2/nside, exact) with the clamp on the base-cell border, no overflow/cast/shift check can fail (so debug and release agree). (4) codec contract (C04). (5) latitude outside [-pi/2,pi/2] or NaN must panic, every depth. Quick: depths {0,1,2,3,8,9,16,17,26,29}; thorough: all 30.",
    note="Relative to libm facts (range of sin; thresholds of cos in the caps), listed; position -> (u,v) exactness of the projection formulae is not decided (no real-number semantics for sin/cos in any installed verifier); strips => diamond is plain arithmetic (DESIGN 2.2b-3).",
    technique="Kani contracts/stubs (CBMC, IEEE-754 bit-precise) on the real hash code: full-domain harness for xpm1_and_q, contract-stubbed trig layer, per-depth tail in strip form",
)
EXPLANATION = "Complete per listed depth for the tail given the trig-layer contract; the trig-layer contract itself is proved for |lat| <= asin(2/3) and only searched in the caps."
ASSUMPTIONS = ["libm facts: sin(x) in [-1,1]; |x| <= asin(2/3) => |1.5 sin x| <= 1; in the caps 0 <= sqrt6*cos(lat/2 +- pi/4) <= 1",
               "trig-layer contract in the polar caps (u, v in [+0, 2]) is assumed by the tail harnesses; it is searched, not proved",
               "that (d0h,l,h) is the Calabretta-Roukema projection of (lon,lat) is not decided here"]
TRUSTED_BASE = ["Kani 0.68 / CBMC 6.11 IEEE-754", "(stub_verified) Layer::build_hash_from_parts contract (C04)"]
def units():
    us = [
        Unit("hash_xpm1_contract", P + "hash_xpm1_contract", ["Layer::xpm1_and_q"], "every double |lon| <= 200: quarter correct (mirrored for lon<0), coordinate in [-1,1]", level="P"),
        Unit("hash_trig_contract_eqr", P + "hash_trig_contract_eqr", ["Layer::d0h_lh_in_d0c", "Layer::xpm1_and_q", "(assumed facts) f64::sin"], "|lat| <= asin(2/3), |lon| <= 200: base cell < 12, h in [+0,2], l in [-1,1], u=h+l and v=h-l in [+0,2]", timeout=900, level="P"),
        Unit("hash_trig_contract_npc", P + "hash_trig_contract_npc", ["Layer::d0h_lh_in_d0c", "(assumed facts) f64::cos"], "north cap: same contract, north polar base cell; time-bounded refutation search", kind="search", timeout=240),
        Unit("hash_trig_contract_spc", P + "hash_trig_contract_spc", ["Layer::d0h_lh_in_d0c", "(assumed facts) f64::cos"], "south cap: same; time-bounded refutation search", kind="search", timeout=240),
        Unit("hash_trig_basecell_eqr", P + "hash_trig_basecell_eqr", ["Layer::d0h_lh_in_d0c", "Layer::xpm1_and_q"], "equatorial latitudes, |lon| <= 200: the base cell is one of the four base cells meeting the longitude quarter (q, q+8, 4+q, 4+((q+1)&3))", timeout=600, level="P"),
        Unit("hash_trig_quadrant_eqr", P + "hash_trig_quadrant_eqr", ["Layer::d0h_lh_in_d0c", "Layer::xpm1_and_q"], "equatorial latitudes: north/east/west/south quadrant of the longitude quarter (w.r.t. its two diagonals, S->E and S->W edges included) -> base cell q / 4+((q+1)&3) / 4+q / q+8; time-bounded refutation search", kind="search", timeout=240),
        Unit("hash_trig_oracle_eqr", P + "hash_trig_oracle_eqr", ["Layer::d0h_lh_in_d0c", "Layer::xpm1_and_q"], "equatorial latitudes: (d0h, l, h) is exactly the position of the point relative to the centre of base cell d0h (integer geometry of the plane, independent of the quadrant logic); d0h is one of the four base cells meeting the longitude quarter; time-bounded refutation search", kind="search", timeout=300),
        Unit("hash_trig_oracle_npc", P + "hash_trig_oracle_npc", ["Layer::d0h_lh_in_d0c"], "north cap: d0h == quarter, (l, h) == (x_pm1 s, 2 - s); search", kind="search", timeout=240),
        Unit("hash_trig_oracle_spc", P + "hash_trig_oracle_spc", ["Layer::d0h_lh_in_d0c"], "south cap: d0h == quarter + 8, (l, h) == (x_pm1 s, s); search", kind="search", timeout=240),
        Unit("hash_lat_must_panic", P + "hash_lat_must_panic", ["Layer::hash", "Layer::hash_v2", "check_lat"], "every depth: latitude outside [-pi/2, pi/2], +-inf or NaN is rejected by a panic on every path", kind="must_panic", allowed_fail=[r"-HALF_PI <= lat && lat <= HALF_PI"], extra=dict(no_native=True)),
        Unit("hash_tail_canary", P + "hash_tail_canary", ["Layer::hash_v2"], "vacuity guard", kind="canary"),
    ]
    for d in range(30):
        us.append(Unit("hash_tail_d%02d" % d, P + "hash_tail_d%02d" % d, ["Layer::hash", "Layer::hash_v2 (tail)", "check_lat", "(contract stub) Layer::d0h_lh_in_d0c", "(stub_verified) Layer::build_hash_from_parts"],
                       "depth %d, every (d0h,l,h) allowed by the trig contract: hash < 12*4^d, base cell kept, strips i*s<=u<(i+1)*s, j*s<=v<(j+1)*s with clamp; no arithmetic check fails" % d,
                       tiers=both if d in QUICK else th, timeout=900, level="B", bound="depth %d" % d, extra=dict(no_native=True)))
    return us
