from driver import Unit
LEVEL = "other"
HARNESS_FILES = ["verif_edge.rs", "verif_nb.rs"]
P = "nested::verif_edge::"
both = ("quick", "thorough"); th = ("thorough",)
MANIFEST = dict(
    category="other",
    text="EVERY delta_depth 1..=29 at once (Verus unit edge_corners_verus): the corner helpers internal_corner_south/east/west/north and the masks x/y/xy_mask, cut out of the working tree on every run, return the descendant whose sub-cell index is 0 / all even bits / all odd bits / 4^delta-1, without overflow. In addition (Kani, bounded): Internal edge (delta_depth 1..3, every parent cell symbolic): length 4*2^d-4, all descendants, all on the border, closed walk with adjacent consecutive cells from the south corner through the east, north and west corners, no duplicates; sorted variant is its strictly increasing permutation; internal_corner / internal_edge_part / append_ variants return the matching cells. External edge, modular: (1) the direction under which each neighbour sees the cell -- the rule used by external_edge_generic/_struct with the tables direction_from_neighbour / edge_cell_direction_from_neighbour / direction_in_base_cell_border -- names exactly the shared edge/vertex (integer vertex-sharing oracle, all cells of depths 0..3 x 8 directions); (2) append_sorted_internal_edge_element appends exactly that corner/side of the neighbour. Bounded in delta_depth (<=3) and depth (<=3 for the direction rule).",
    note="The loop of external_edge_generic/_struct itself (Vec collect/sort of the neighbour map) is not verified end to end: symbolic execution did not finish; the selection rule is replicated in the harness from the same real table functions. Uses C04's neighbour contract and oracle assumptions.",
    technique="Verus (z3, bit-vector) contracts on the extracted mask / corner helpers for every delta_depth; Kani bounded harnesses (CBMC) on the real edge functions and direction tables against the integer vertex-sharing oracle",
)
EXPLANATION = "Unit edge_corners_verus is unbounded (all delta_depth, all parent cells) for the corner and mask helpers. Each Kani unit is complete over all parent cells for its delta_depth / depth; delta_depth and depth are the bounds."
ASSUMPTIONS = ["external_edge_generic/external_edge_struct composition (iteration over the neighbour map, sorted variant's sort) not verified end to end",
               "gluing rule of verif_spec::canon as in C04", "delta_depth <= 3; direction rule at depths 0..3 (quick: 0..2)"]
TRUSTED_BASE = ["Verus 0.2026.09.13 + z3 bit-vector mode (unit edge_corners_verus)", "Kani 0.68 / CBMC 6.11", "harness/verif_spec.rs integer geometry", "(stub_verified) Layer::build_hash_from_parts contract (proved in C04)"]
def units():
    IE = ["Layer::internal_edge", "Layer::internal_edge_sorted", "internal_corner*", "x_mask", "get_zoc/i02h/oj2h"]
    us = []
    for dd in (1, 2, 3):
        us.append(Unit("edge_internal_dd%d" % dd, P + "edge_internal_dd%d" % dd, IE, "delta_depth %d, all parent cells: internal edge = closed border walk S->E->N->W of 4*2^d-4 distinct descendants; sorted variant = its increasing permutation; corners" % dd, tiers=both if dd < 3 else th, timeout=1800 if dd == 3 else 900, mem_gb=8, level="B", bound="delta_depth %d" % dd))
        us.append(Unit("edge_part_dd%d" % dd, P + "edge_part_dd%d" % dd, ["internal_edge_part", "internal_edge_southeast/southwest/northeast/northwest", "append_internal_edge_part"], "delta_depth %d: each side helper returns the 2^d descendants of that side, ascending; append_ variant identical" % dd, timeout=900, level="B", bound="delta_depth %d" % dd))
    for dd in (3, 4, 5):
        us.append(Unit("edge_walk_dd%d" % dd, P + "edge_walk_dd%d" % dd, IE, "delta_depth %d, all parent cells: the k-th element of internal_edge is the k-th cell of the border walk S->E->N->W (a descendant of the cell), for every k" % dd, tiers=both, timeout=900, mem_gb=8, level="B", bound="delta_depth %d" % dd))
    for dd in (1, 2):
        us.append(Unit("edge_append_dd%d" % dd, P + "edge_append_dd%d" % dd, ["append_sorted_internal_edge_element", "internal_corner", "append_internal_edge_part", "MainWind::{is_cardinal,to_cardinal,is_ordinal,to_ordinal}"], "delta_depth %d: element appended for a neighbour seen from each of the 8 directions is exactly that corner / side" % dd, timeout=900, level="B", bound="delta_depth %d" % dd))
    for d in (0, 1, 2, 3):
        us.append(Unit("edge_dir_d%02d" % d, P + "edge_dir_d%02d" % d, ["direction_from_neighbour", "edge_cell_direction_from_neighbour", "npc_/eqr_/spc_ direction tables", "Layer::direction_in_base_cell_border", "MainWind::opposite", "Layer::neighbour_from_parts"],
                       "depth %d, all cells x 8 directions: the direction under which the neighbour sees the cell names exactly the shared edge / vertex" % d, tiers=both if d < 3 else th, timeout=900, level="B", bound="depth %d" % d))
    VF = ["x_mask", "y_mask", "xy_mask", "internal_corner_south", "internal_corner_east", "internal_corner_west", "internal_corner_north"]
    us.append(Unit("edge_corners_verus", "contracts/verus_edge.py", VF,
                   "EVERY delta_depth 1..=29 and every parent cell with depth + delta_depth <= 29 (no bound): each corner helper returns a descendant of the parent (result >> 2*dd == parent) whose "
                   "sub-cell index is: south 0; north 4^dd - 1; east = all even bits below 2*dd and no odd bit (i maximal, j = 0); west = all odd bits and no even bit; the masks x/y/xy_mask(d), 1 <= d <= 32, "
                   "are exactly the even / odd / all bits below 2*d; no shift or subtraction overflows",
                   engine="verus", level="P", timeout=600, extra=dict(spec="verus_edge", rlimit=60, twin="edge_corners_all_dd"), bound="none (all delta_depth, all parent cells)"))
    us.append(Unit("edge_corners_all_dd", P + "edge_corners_all_dd", VF + ["internal_corner"], "EVERY delta_depth 1..=29 and every parent cell, symbolic, loop-free (complete proof, replayable): the four corners (through the dispatcher internal_corner) are descendants with sub-cell index 0 / even bits / odd bits / 4^delta-1; masks == even / odd / all bits",
                   level="P", timeout=900, bound="none (delta_depth and parent cell symbolic)"))
    us.append(Unit("edge_corners_verus_canary", "contracts/verus_edge.py", VF, "vacuity guard: a false claim under the same precondition must fail",
                   kind="canary", engine="verus", timeout=600, extra=dict(spec="verus_edge", rlimit=60)))
    return us
