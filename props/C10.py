from driver import Unit

LEVEL = "other"
HARNESS_FILES = ["verif_ring.rs"]
P = "nested::verif_ring::"
TR = ["Layer::to_ring", "Layer::decode_hash", "Layer::nside_time", "Layer::first_hash_in_eqr", "Layer::minus_nside_x_4nside", "ring::triangular_number_x4", "div2_quotient"]
FR = ["Layer::from_ring", "ring::polar_cap_ring_index", "ring::triangular_number_x4", "Layer::build_hash_from_parts", "depth0_hash_unsafe", "Layer::div_by_nside_floor_u8", "Layer::modulo_nside"]
MANIFEST = dict(
    category="other",
    text="Per depth, with ALL cells symbolic: to_ring is proved to be an order isomorphism onto [0,12*4^d) for the RING order of the cell centres taken from an independent integer geometry (in range, strictly monotone in (ring from the north, x in [0,8)), hence injective, hence bijective); from_ring(to_ring(h)) == h; ring-scheme centre == nested centre of from_ring(r), bit for bit. These are complete proofs for the depths they finish at (order: 0..12, inverse: 0..6, centre: 0..2); the nonlinear ring-start arithmetic defeats SAT beyond, so deeper depths get TIME-BOUNDED REFUTATION SEARCHES with the same obligations (a violation found there is reported with a native replay; finding nothing is labelled inconclusive, never proved). The repaired float-sqrt step (polar_cap_ring_index) has its own contract. Bounded in depth => level 'other', not 'proof'.",
    note="Plane order == (latitude descending, longitude ascending) assumes unproj is monotone (argued). Depths above the stated ones are searched, not proved. CBMC's IEEE sqrt model is trusted for the ring-index contract.",
    technique="Kani per-depth full-domain harnesses (CBMC) on the real to_ring/from_ring vs an integer-geometry order; time-bounded CBMC refutation search at high depth",
)
EXPLANATION = ("Complete per depth where listed as proved_units; searches (coverage.time_bounded_refutation_searches) are budgeted CBMC runs at depths where the proof does not finish: they decide nothing when they time out. "
               "A Verus proof of the nonlinear integer core for all depths is the planned replacement (DESIGN §5 C10).")
ASSUMPTIONS = ["order of centres in the projection plane (y descending, then x ascending in [0,8)) equals (latitude descending, longitude ascending in [0,2pi)): unproj monotone, argued from the formulae",
               "depths not listed under proved_units are NOT proved (only searched for counterexamples within a time budget)",
               "Layer::new(depth) used directly"]
TRUSTED_BASE = ["Kani 0.68 / CBMC 6.11 (incl. its IEEE-754 sqrt model)", "harness/verif_spec.rs integer geometry (cell_center)"]

ISO_Q, ISO_T = [0, 1, 2, 4, 8], list(range(0, 13))
RT_Q, RT_T = [0, 1, 2], list(range(0, 7))
CTR_Q, CTR_T = [0], [0, 1, 2]
SEARCH_Q = [16, 29]
SEARCH_T = [13, 16, 20, 24, 26, 27, 28, 29]


def tiers(d, q, t):
    r = []
    if d in q: r.append("quick")
    if d in t: r.append("thorough")
    return tuple(r)


def units():
    us = []
    for nm, dom in (("lt_2p10", "h < 2^10"), ("2p10_2p20", "2^10 <= h < 2^20"), ("2p20_2p40", "2^20 <= h < 2^40"), ("2p40_2p53", "2^40 <= h < 2^53"), ("2p53_2p62", "2^53 <= h < 2^62 (where the float sqrt is inexact)")):
        us.append(Unit("pcri_contract_" + nm, P + "pcri_contract_" + nm, ["ring::polar_cap_ring_index", "ring::triangular_number_x4"],
                       "contract: polar_cap_ring_index(h) = r with 2r(r+1) <= h < 2(r+1)(r+2), %s" % dom, kind="search" if nm != "lt_2p10" else "proof", timeout=240, level="B", bound=dom))
    for d in range(30):
        dd = "%02d" % d
        t = tiers(d, ISO_Q, ISO_T)
        if t:
            us.append(Unit("ring_iso_d" + dd, P + "ring_iso_d" + dd, TR, "depth %d: to_ring in range and strictly monotone w.r.t. (ring from north, x) of the centres for any two cells => bijection realising the RING order" % d, tiers=t, timeout=1500, level="B", bound="depth %d (all cells)" % d))
        t = tiers(d, SEARCH_Q, SEARCH_T)
        if t:
            us.append(Unit("ring_iso_search_d" + dd, P + "ring_iso_d" + dd, TR, "depth %d: same obligation, time-bounded refutation search" % d, kind="search", tiers=t, timeout=240 if "quick" in t else 900, level="B"))
            us.append(Unit("ring_rt_search_d" + dd, P + "ring_rt_d" + dd, TR + FR, "depth %d: from_ring(to_ring(h)) == h, time-bounded refutation search" % d, kind="search", tiers=t, timeout=240 if "quick" in t else 900, level="B"))
        t = tiers(d, RT_Q, RT_T)
        if t:
            us.append(Unit("ring_rt_d" + dd, P + "ring_rt_d" + dd, TR + FR, "depth %d: from_ring(to_ring(h)) == h for all cells" % d, tiers=t, timeout=1500, level="B", bound="depth %d (all cells)" % d))
        t = tiers(d, CTR_Q, CTR_T)
        if t:
            us.append(Unit("ring_ctr_d" + dd, P + "ring_ctr_d" + dd, FR + ["ring::center_of_projected_cell", "Layer::center_of_projected_cell"], "depth %d: ring centre of r == nested centre of from_ring(r), bit for bit, all r" % d, tiers=t, timeout=1500, level="B", bound="depth %d (all cells)" % d))
    us.append(Unit("ring_canary_d02", P + "ring_canary_d02", TR, "vacuity guard", kind="canary"))
    return us
