from driver import Unit
LEVEL = "other"
HARNESS_FILES = ["verif_ring.rs"]
P = "nested::verif_ring::"
def units():
    us = []
    for d in range(30):
        dd = "%02d" % d
        us.append(Unit("ring_iso_d" + dd, P + "ring_iso_d" + dd, ["Layer::to_ring"], "x", timeout=600))
        us.append(Unit("ring_rt_d" + dd, P + "ring_rt_d" + dd, ["Layer::to_ring", "Layer::from_ring"], "x", timeout=600))
        us.append(Unit("ring_ctr_d" + dd, P + "ring_ctr_d" + dd, ["Layer::from_ring"], "x", timeout=600))
    return us
