from driver import Unit

LEVEL = "other"
HARNESS_FILES = ["verif_ring.rs"]
P = "nested::verif_ring::"
TR = ["Layer::to_ring", "Layer::decode_hash", "Layer::nside_time", "Layer::first_hash_in_eqr", "Layer::minus_nside_x_4nside", "ring::triangular_number_x4", "div2_quotient"]
FR = ["Layer::from_ring", "ring::polar_cap_ring_index", "ring::triangular_number_x4", "Layer::build_hash_from_parts", "depth0_hash_unsafe", "Layer::div_by_nside_floor_u8", "Layer::modulo_nside"]
MANIFEST = dict(
    category="other",
    text="ALL DEPTHS AT ONCE (Verus, no bound): the real to_ring with its helpers (nside_time, first_hash_in_eqr, minus_nside_x_4nside, triangular_number_x4, div2/div4 helpers), cut out of the working tree on every run, is proved to return ring_first(ring) + rank, where ring is the ring of the cell centre and rank its rank by longitude inside the ring (closed forms of the RING scheme), with 0 <= rank < ring_len(ring), result < 12*nside^2, no overflow, and the integer fix-up of polar_cap_ring_index is proved exact for all h < 2^62 given a float estimate within +-1 The real from_ring (with div_by_nside_floor_u8, modulo_nside, depth0_hash_unsafe) is proved to build the cell whose closed-form RING index is its argument, so to_ring(from_ring(r)) == r for ALL depths and all r, which with the range contract makes the two maps inverse bijections of [0, 12*4^depth); the ring intervals are proved to tile that range in ring order (decode_hash's range contract, decode(build(p)) == p and the float accuracy are assumed contracts). In addition, per depth, with ALL cells symbolic (Kani): to_ring is proved to be an order isomorphism onto [0,12*4^d) for the RING order of the cell centres taken from an independent integer geometry (in range, strictly monotone in (ring from the north, x in [0,8)), hence injective, hence bijective); from_ring(to_ring(h)) == h; ring-scheme centre == nested centre of from_ring(r), bit for bit. These are complete proofs for the depths they finish at (order: 0..12, inverse: 0..6, centre: 0..2); the nonlinear ring-start arithmetic defeats SAT beyond, so deeper depths get TIME-BOUNDED REFUTATION SEARCHES with the same obligations (a violation found there is reported with a native replay; finding nothing is labelled inconclusive, never proved). The repaired float-sqrt step (polar_cap_ring_index) has its own contract. Bounded in depth => level 'other', not 'proof'.",
    note="Plane order == (latitude descending, longitude ascending) assumes unproj is monotone (argued). Depths above the stated ones are searched, not proved. CBMC's IEEE sqrt model is trusted for the ring-index contract.",
    technique="Verus (SMT, z3) function contracts on the mechanically extracted integer core of to_ring / from_ring / polar_cap_ring_index and their helpers, unbounded in depth (round trip by composition of the two contracts); Kani per-depth full-domain harnesses (CBMC) on the real to_ring/from_ring vs an integer-geometry order; time-bounded CBMC refutation search at high depth",
)
EXPLANATION = ("Complete per depth where listed as proved_units; searches (coverage.time_bounded_refutation_searches) are budgeted CBMC runs at depths where the proof does not finish: they decide nothing when they time out. "
               "The Verus unit ring_core_verus proves the closed form of to_ring for all depths (no bound) under the assumed contracts listed; the centre agreement remains per-depth Kani proofs / searches; the per-depth Kani units for order and round trip are kept as an independent cross-check with the real codec.")
ASSUMPTIONS = ["order of centres in the projection plane (y descending, then x ascending in [0,8)) equals (latitude descending, longitude ascending in [0,2pi)): unproj monotone, argued from the formulae",
               "depths not listed under proved_units are NOT proved (only searched for counterexamples within a time budget)",
               "Layer::new(depth) used directly",
               "Verus unit: struct Layer reduced to (depth, nside, n_hash) with wf(): nside == 2^depth, n_hash == 12*4^depth, depth <= 29 (what Layer::new establishes: proved for every depth by the Kani unit layer_new_wf)",
               "Verus unit: Layer::decode_hash is external_body with the ASSUMED contract d0h < 12, i < nside, j < nside (codec verified by Kani in C04/C18); to_ring's result is stated as a function of the decoded parts",
               "Verus unit: the float expression (((1 + (hash << 1)) as f64).sqrt() as u64 - 1) >> 1 is replaced by an uninterpreted function ASSUMED to be within +-1 of the exact ring index (searched on the real expression by the Kani units pcri_contract_*)",
               "Verus unit: generic helper div2_quotient<T: Shr> is inlined textually as `>> 1u8` (its body `x.shr(1)` is guarded); debug_assert! is turned into a proof obligation; machine integers are modelled exactly (overflow checked), shifts via vstd bit-vector lemmas",
               "Verus unit: Layer::build_hash_from_parts is external_body with the ASSUMED contract decode_hash(build(d0h,i,j)) == (d0h,i,j), result < n_hash, for valid parts (codec proved per z-order class by Kani, C04/C18); 'bijection' follows from to_ring(from_ring(r)) == r plus the range contract by finiteness (argued, two lines)",
               "Verus unit: that the closed-form (ring, rank) are the ring and the longitude rank of the CENTRE is by definition of the spec functions (integer geometry of the HEALPix net); the bit-for-bit centre agreement stays with the per-depth Kani units ring_ctr_*"]
TRUSTED_BASE = ["Verus 0.2026.09.13 + z3 (single-file mode), vstd arithmetic/bit lemmas", "Kani 0.68 / CBMC 6.11 (incl. its IEEE-754 sqrt model)", "harness/verif_spec.rs integer geometry (cell_center)"]

ISO_Q, ISO_T = [0, 1, 2, 4, 8], list(range(0, 13))
RT_Q, RT_T = [0, 1, 2], list(range(0, 7))
CTR_Q, CTR_T = [0], [0, 1, 2]
SEARCH_Q = [16, 29]
SEARCH_T = [13, 16, 20, 24, 26, 27, 28, 29]


def tiers(d, q, t):
    r = []
    if d in q: r.append("quick")
    if d in t: r.append("thorough")
    return tuple(r)


def units():
    us = []
    for nm, dom in (("lt_2p10", "h < 2^10"), ("2p10_2p20", "2^10 <= h < 2^20"), ("2p20_2p40", "2^20 <= h < 2^40"), ("2p40_2p53", "2^40 <= h < 2^53"), ("2p53_2p62", "2^53 <= h < 2^62 (where the float sqrt is inexact)")):
        us.append(Unit("pcri_contract_" + nm, P + "pcri_contract_" + nm, ["ring::polar_cap_ring_index", "ring::triangular_number_x4"],
                       "contract: polar_cap_ring_index(h) = r with 2r(r+1) <= h < 2(r+1)(r+2), %s" % dom, kind="search" if nm != "lt_2p10" else "proof", timeout=240, level="B", bound=dom))
    for d in range(30):
        dd = "%02d" % d
        t = tiers(d, ISO_Q, ISO_T)
        if t:
            us.append(Unit("ring_iso_d" + dd, P + "ring_iso_d" + dd, TR, "depth %d: to_ring in range and strictly monotone w.r.t. (ring from north, x) of the centres for any two cells => bijection realising the RING order" % d, tiers=t, timeout=1500, level="B", bound="depth %d (all cells)" % d))
        t = tiers(d, SEARCH_Q, SEARCH_T)
        if t:
            us.append(Unit("ring_iso_search_d" + dd, P + "ring_iso_d" + dd, TR, "depth %d: same obligation, time-bounded refutation search" % d, kind="search", tiers=t, timeout=240 if "quick" in t else 900, level="B"))
            us.append(Unit("ring_rt_search_d" + dd, P + "ring_rt_d" + dd, TR + FR, "depth %d: from_ring(to_ring(h)) == h, time-bounded refutation search" % d, kind="search", tiers=t, timeout=240 if "quick" in t else 900, level="B"))
        t = tiers(d, RT_Q, RT_T)
        if t:
            us.append(Unit("ring_rt_d" + dd, P + "ring_rt_d" + dd, TR + FR, "depth %d: from_ring(to_ring(h)) == h for all cells" % d, tiers=t, timeout=1500, level="B", bound="depth %d (all cells)" % d))
        t = tiers(d, CTR_Q, CTR_T)
        if t:
            us.append(Unit("ring_ctr_d" + dd, P + "ring_ctr_d" + dd, FR + ["ring::center_of_projected_cell", "Layer::center_of_projected_cell"], "depth %d: ring centre of r == nested centre of from_ring(r), bit for bit, all r" % d, tiers=t, timeout=1500, level="B", bound="depth %d (all cells)" % d))
    VF = ["Layer::to_ring", "Layer::from_ring", "Layer::div_by_nside_floor_u8", "Layer::modulo_nside", "depth0_hash_unsafe", "Layer::nside_time", "Layer::first_hash_in_eqr", "Layer::minus_nside_x_4nside", "ring::triangular_number_x4",
          "ring::polar_cap_ring_index", "div2_remainder", "div4_quotient", "div4_remainder"]
    us.append(Unit("ring_core_verus", "contracts/verus_ring.py", VF,
                   "ALL depths 0..=29, all cells, no bound: to_ring(hash) == ring_first(ring) + rank with ring = nside*(d0h/4+2) - (i+j+2) (ring of the cell centre), "
                   "rank = rank of the centre by longitude inside the ring (caps: quadrant*(cells per quadrant) + (l+ring)/2; band: floor(X/2), X the planar abscissa in [0,8 nside)), "
                   "0 <= rank < ring_len(ring), result < 12*nside^2, no arithmetic overflow/underflow, debug assertion never fires; helpers equal their closed forms; "
                   "from_ring(r) = build(d0h,i,j) with ring_index(d0h,i,j) == r and valid parts; hence to_ring(from_ring(r)) == r for every r < 12*nside^2 (harness ring_round_trip over the two contracts) and, with the range contract, both maps are inverse bijections; ring intervals tile [0,12 nside^2) in ring order; "
                   "polar_cap_ring_index(h) = r with 2r(r+1) <= h < 2(r+1)(r+2) for all h < 2^62 GIVEN a float estimate within +-1",
                   engine="verus", level="P", timeout=600, extra=dict(spec="verus_ring", rlimit=60),
                   bound="none (all depths, all cells); codec contracts (decode_hash range, decode(build(p)) == p) and float-sqrt accuracy assumed"))
    us.append(Unit("layer_new_wf", P + "layer_new_wf", ["Layer::new"], "every depth 0..=29 (symbolic): Layer::new establishes wf() assumed by the Verus contracts: nside == 2^depth, n_hash == 12*4^depth, nside_remainder_mask == nside - 1",
                   level="P", timeout=600, bound="none (depth symbolic in 0..=29)"))
    us.append(Unit("ring_core_verus_canary", "contracts/verus_ring.py", VF, "vacuity guard: a false claim after to_ring under the same preconditions must fail",
                   kind="canary", engine="verus", timeout=600, extra=dict(spec="verus_ring", rlimit=60)))
    us.append(Unit("ring_canary_d02", P + "ring_canary_d02", TR, "vacuity guard", kind="canary"))
    return us
