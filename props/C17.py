from driver import Unit
LEVEL = "other"
HARNESS_FILES = ["verif_proj.rs"]
P = "verif_proj::"
MANIFEST = dict(
    category="other",
    text="Decides everything around the libm calls of proj/unproj, for all doubles of the stated domains (complete, loop-free): pm1_offset_decompose (odd offset mod 8, remainder in [-1,1], exact recomposition); proj: |x| <= 8 with the sign of lon, |y| <= 1 in the equatorial region and 1 <= |y| <= 2 in the caps with the sign of lat, for |lon| <= 200; unproj (equatorial band): |lat| <= asin(2/3) with the sign of y, lon with the sign of x, |lon| <= 2pi; unproj (polar caps, gore edges and numerically-just-outside points included): latitude in the cap with the sign of y, longitude in the facet of x and on the same side of its central meridian; base_cell_from_proj_coo: for EVERY point of the projected domain (the net: band + gores) the returned base cell is < 12 and its diamond (integer geometry) contains the point, no debug assertion or overflow can fail; latitude outside [-pi/2,pi/2] and y outside [-2,2] (NaN included) must panic. sin/cos/asin/acos are replaced by range facts (assumed).",
    note="Not decided: that proj matches the Calabretta-Roukema formulae numerically and that unproj(proj(p)) = p to 1e-14 (needs real-number semantics of libm inverse pairs, absent from every installed verifier).",
    technique="Kani full-domain harnesses over IEEE-754 doubles (CBMC) on the real proj/unproj/base_cell_from_proj_coo with libm replaced by assumed range facts",
)
EXPLANATION = "Each unit is a complete proof over its double-precision domain, relative to the listed libm range facts; the numerical inverse property is not claimed, hence level 'other'."
ASSUMPTIONS = ["libm facts: sin in [-1,1], sin(x) is +0 or positive for x >= 0, |1.5 sin x| <= 1 for |x| <= asin(2/3); in the caps 0 <= sqrt6*cos(x/2+pi/4) <= 1; asin of [0,2/3] in [0, asin(2/3)]; acos of [0,1/sqrt6] in [pi/4, pi/2]",
               "numerical inverse property unproj(proj(p)) == p within 1e-14 and agreement with the reference formulae: NOT decided"]
TRUSTED_BASE = ["Kani 0.68 / CBMC 6.11 IEEE-754"]
def units():
    nn = dict(no_native=True)
    return [
        Unit("proj_pm1_offset_contract", P + "proj_pm1_offset_contract", ["pm1_offset_decompose"], "every double x in [0,255): offset odd mod 8, remainder in [-1,1], exact recomposition", level="P"),
        Unit("proj_eqr_range", P + "proj_eqr_range", ["proj", "abs_sign_decompose", "pm1_offset_decompose", "proj_cea", "apply_offset_and_signs", "check_lat"], "equatorial region, |lon| <= 200: |x| <= 8 sign(lon), |y| <= 1 sign(lat)", timeout=600, level="P", extra=nn),
        Unit("proj_cap_range", P + "proj_cap_range", ["proj", "proj_collignon", "apply_offset_and_signs"], "polar caps: 1 <= |y| <= 2 sign(lat), |x| <= 8 sign(lon)", timeout=600, level="P", extra=nn),
        Unit("unproj_eqr_range", P + "unproj_eqr_range", ["unproj", "deproj_cea", "apply_offset_and_signs", "check_y"], "equatorial band: |lat| <= asin(2/3) sign(y); lon sign(x), |lon| <= 2pi", timeout=600, level="P", extra=nn),
        Unit("unproj_cap_side", P + "unproj_cap_side", ["unproj", "deproj_collignon", "is_not_near_from_pole", "deal_with_numerical_approx_in_edges", "pm1_offset_decompose", "apply_offset_and_signs"], "polar caps (inside the gore, edges included): lat in the cap with sign(y); lon sign(x), in the facet of x and on the same side of its central meridian", timeout=900, level="P", extra=nn),
        Unit("proj_base_cell_contains_band", P + "proj_base_cell_contains_band", ["base_cell_from_proj_coo", "ensures_x_is_positive"], "equatorial band |y| <= 1, all x in ]-8,8[: base cell < 12 whose diamond contains the point; time-bounded refutation search (proof did not finish in 400 s)", kind="search", timeout=240),
        Unit("proj_base_cell_contains_north", P + "proj_base_cell_contains_north", ["base_cell_from_proj_coo"], "north gores incl. points numerically on/just outside a gore edge: base cell < 12, diamond contains the point when strictly inside, no internal assertion/overflow fails", timeout=900, level="P"),
        Unit("proj_base_cell_contains_south", P + "proj_base_cell_contains_south", ["base_cell_from_proj_coo"], "south gores: same", timeout=900, level="P"),
        Unit("proj_lat_must_panic", P + "proj_lat_must_panic", ["proj", "check_lat"], "latitude outside [-pi/2,pi/2] / NaN rejected by a panic on every path", kind="must_panic", allowed_fail=[r"-HALF_PI <= lat && lat <= HALF_PI"], extra=nn),
        Unit("unproj_y_must_panic", P + "unproj_y_must_panic", ["unproj", "check_y"], "y outside [-2,2] / NaN rejected by a panic on every path", kind="must_panic", allowed_fail=[r"-2f64 <= y && y <= 2f64"], extra=nn),
    ]
