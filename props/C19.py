from driver import Unit
LEVEL = "other"
HARNESS_FILES = ["verif_geom.rs"]
P = "nested::verif_geom::"
def units():
    us = []
    for n in ["bilinear_d00", "bilinear_d01", "bilinear_d02", "bilinear_center_d01", "bilinear_d29"]:
        us.append(Unit(n, P + n, ["x"], "x", timeout=400, mem_gb=8, extra=dict(no_native=True)))
    return us
