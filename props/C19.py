from driver import Unit
LEVEL = "other"
HARNESS_FILES = ["verif_geom.rs"]
P = "nested::verif_geom::"
both = ("quick", "thorough"); th = ("thorough",)
MANIFEST = dict(
    category="other",
    text="bilinear_interpolation on the real code with hash_with_dxdy replaced by its contract (any cell, any offsets in [0,1]) and the real neighbours(): the four weights are non-negative, every returned cell is the cell of the position or one of its neighbours, that cell is always present, the corner neighbour of the position's quadrant takes part, a missing corner (three-cell point) contributes (cell, 0), and at the cell centre the cell weighs exactly 1. Proved for depth 0 (all 12 cells, incl. the 6-neighbour case); on the dyadic grid of offsets k/8 (all products exact) the weights are proved to sum to EXACTLY 1 and to equal the factored bilinear formulas, a missing corner's weight being shared equally between the two side cells (depth 0 proved; depths 1 and 29 searched); depths 1, 2 and 29 of the general obligations are time-bounded refutation searches (the real neighbours() makes the query large). 'Weights sum to 1' for arbitrary offsets (four double products) and the grid-mean claim: NOT decided.",
    note="Bounded: proof at depth 0 only; deeper depths searched. Partition-of-unity (sum == 1) not decided.",
    technique="Kani contract-stubbed harness (CBMC) on the real bilinear_interpolation and neighbours; time-bounded refutation search beyond depth 0",
)
EXPLANATION = "Depth 0 unit complete over cells and offsets; other depths inconclusive searches unless they finish."
ASSUMPTIONS = ["hash_with_dxdy contract (cell < 12*4^d, offsets in [0,1]) assumed (C03)", "sum of weights == 1 within rounding and the weighted-mean claim: NOT decided"]
TRUSTED_BASE = ["Kani 0.68 / CBMC 6.11 IEEE-754"]
def units():
    F = ["Layer::bilinear_interpolation", "Layer::neighbours", "MainWindMap::get", "(contract stub) Layer::hash_with_dxdy"]
    nn = dict(no_native=True)
    return [
        Unit("bilinear_d00", P + "bilinear_d00", F, "depth 0, all cells, all offsets in [0,1]^2: weights >= 0, cells among {cell} U neighbours, cell present, quadrant corner used, missing corner weighs 0", timeout=900, level="B", bound="depth 0", extra=nn),
        Unit("bilinear_center_d00", P + "bilinear_center_d00", F, "depth 0, offsets (0.5, 0.5): weight of the cell == 1, neighbours weigh 0", timeout=900, level="B", bound="depth 0", extra=nn),
        Unit("bilinear_grid_d00", P + "bilinear_grid_d00", F, "depth 0, all cells, offsets on the dyadic grid k/8: weights sum to 1 exactly; each weight equals the bilinear formula, a missing corner's weight is shared equally between the two side cells", timeout=900, level="B", bound="depth 0, offsets in {0,1/8,..,1}^2", extra=nn),
        Unit("bilinear_grid_search_d01", P + "bilinear_grid_d01", F, "depth 1: same on the dyadic grid; time-bounded refutation search", kind="search", timeout=300, extra=nn),
        Unit("bilinear_grid_search_d29", P + "bilinear_grid_d29", F, "depth 29: same; search", kind="search", timeout=300, extra=nn),
        Unit("bilinear_search_d01", P + "bilinear_d01", F, "depth 1: same obligations, time-bounded refutation search", kind="search", timeout=240, extra=nn),
        Unit("bilinear_search_d02", P + "bilinear_d02", F, "depth 2: same, search", kind="search", timeout=240, extra=nn),
        Unit("bilinear_search_d29", P + "bilinear_d29", F, "depth 29: same, search", kind="search", timeout=240, extra=nn),
        Unit("bilinear_center_search_d01", P + "bilinear_center_d01", F, "depth 1, cell centre: search", kind="search", timeout=240, extra=nn),
    ]
