from cone_common import *
LEVEL = "other"
MANIFEST = dict(
    category="other",
    text="Flags and tightness through the same descent contract as C05 (a cell is pushed full only when its centre distance is <= min = shs(radius - cell size), 0 when the radius is below the cell size; nothing is pushed beyond max = shs(min(radius + cell size, pi))), proved for depth differences 0..2 over all distance/threshold assignments; threshold lemma searched; packedness is the pack contract of C15 (bounded); 'radius >= pi gives 12 full base cells' is proved at depths 0, 3, 29 for every radius >= pi with the builder as contract; geometric meaning (cell entirely inside the cone) rests on the assumed lemma G1.",
    note="Bounded and conditional as C05; all-sky case and packing of the final result not decided here.",
    technique="Kani contract-stubbed harness (CBMC) on the real recursive descent with abstract distances; time-bounded refutation search for the float threshold lemma",
)
EXPLANATION = "Same units as C05, read for the flag/tightness side."
ASSUMPTIONS = ["G1 (cell within its largest centre-to-vertex distance of its centre): assumed", "to_bmoc_packing = pack (C15 bounded contract)"]
def units():
    return recur_units() + [threshold_unit(), threshold_struct_unit(), full_flag_unit()] + allsky_units()
