from driver import Unit

LEVEL = "proof"
MANIFEST = dict(
    category="proof",
    text="Complete proofs (all inputs, no bound): each z-order class reachable through get_zoc is checked against the bit-interleave definition over its full coordinate domain, decode is shown inverse, the public xor variant equal to the LUT one, and to_uniq/from_uniq(+IVOA) carry function contracts proved for every depth and hash; depth>29 must panic on every path.",
    note="Trusts Kani/CBMC and the spec definitions in harness/verif_spec.rs. BMI2 build configuration not decided (not compiled under Kani; no model of pdep/pext).",
    technique="Kani function contracts + full-domain loop-free harnesses (CBMC) on the real functions",
)
HARNESS_FILES = ["verif_spec.rs", "verif_zoc.rs", "verif_uniq.rs"]
Z = "nested::zordercurve::verif_zoc::"
U = "nested::verif_uniq::"
ZF = ["zordercurve::get_zoc", "ZOrderCurve::{ij2h,i02h,oj2h,h2ij,ij2i,ij2j}"]

EXPLANATION = (
    "Every obligation is a loop-free CBMC query over the FULL input domain of the real functions (the only loops are the "
    "32-step spec loops of interleave/even_bits, unwound completely with unwinding assertions on), so each discharged "
    "unit is a complete proof, not a bounded check. The three LUT classes are reached through the real get_zoc dispatch "
    "(trait object) with the depth symbolic inside the class. BMI2 variants are compiled only under "
    "cfg(target_feature=bmi2); Kani's build does not enable it and has no model of _pdep/_pext, so the BMI2 "
    "configuration is NOT decided (stated in assumptions).")
ASSUMPTIONS = [
    "BMI2 build configuration (SmallZOCbmi/MediuZOCbmi/LargeZOCbmi, cfg(target_feature=\"bmi2\")) is not verified: "
    "those types are not compiled in the verified configuration and _pdep/_pext have no semantics in Kani/CBMC",
    "machine integers are bit-precise (CBMC); little-endian x86_64 target as compiled by Kani (to_le/from_le, transmute of [u16;4])",
    "the #[cfg(test)] SmallZOCxor/MediuZOCxor types are not selectable by get_zoc and are not verified",
]
TRUSTED_BASE = ["Kani 0.68 translation of MIR to goto-C, CBMC 6.11 + CaDiCaL", "spec functions in harness/verif_spec.rs (interleave, even_bits, uniq): the definitions the property is checked against"]


def units():
    us = [
        Unit("zoc_empty_d0", Z + "zoc_empty_d0", ZF, "depth 0 (EmptyZOC): the only coordinate pair (0,0) maps to 0 and back"),
        Unit("zoc_small_encode", Z + "zoc_small_encode", ZF, "depth 1..=8 via get_zoc: ij2h==interleave, i02h/oj2h restrictions, all i,j<2^8", domain="d in 1..=8 symbolic, all (i,j) < 256^2"),
        Unit("zoc_small_decode", Z + "zoc_small_decode", ZF, "depth 1..=8: h2ij+ij2i/ij2j == even/odd bits and invert ij2h, all h < 2^16"),
        Unit("zoc_mediu_encode", Z + "zoc_mediu_encode", ZF, "depth 9..=16: ij2h==interleave, restrictions, all i,j<2^16"),
        Unit("zoc_mediu_decode", Z + "zoc_mediu_decode", ZF, "depth 9..=16: decode inverse, all h < 2^32"),
        Unit("zoc_large_encode", Z + "zoc_large_encode", ZF, "depth 17..=29: ij2h==interleave, restrictions, all u32 x u32"),
        Unit("zoc_large_decode", Z + "zoc_large_decode", ZF, "depth 17..=29: decode inverse, all u64"),
        Unit("zoc_large_xor_agrees", Z + "zoc_large_xor_agrees", ["LargeZOCxor::*", "LargeZOC::*"], "public xor implementation == LUT implementation == spec on all inputs"),
        Unit("zoc_classes_agree", Z + "zoc_classes_agree", ["SmallZOC", "MediuZOC", "LargeZOC"], "all LUT classes agree on their common domain"),
        Unit("zoc_canary", Z + "zoc_canary", ZF, "vacuity guard: swapped coordinates are refuted", kind="canary"),
        Unit("zoc_depth_must_panic", Z + "zoc_depth_must_panic", ["zordercurve::get_zoc", "check_depth"], "get_zoc(depth>29) panics on every path",
             kind="must_panic", allowed_fail=[r"Expected depth in \[0, 29\]"]),
        Unit("uniq_to_uniq_contract", U + "uniq_to_uniq_contract", ["nested::to_uniq"], "contract: to_uniq(d,h) == 4^(d+2)+h for all valid cells"),
        Unit("uniq_to_uniq_ivoa_contract", U + "uniq_to_uniq_ivoa_contract", ["nested::to_uniq_ivoa"], "contract: to_uniq_ivoa(d,h) == 4*4^d+h"),
        Unit("uniq_from_uniq_contract", U + "uniq_from_uniq_contract", ["nested::from_uniq"], "contract: from_uniq(u) is the valid cell whose uniq number is u, for every u in the image"),
        Unit("uniq_from_uniq_ivoa_contract", U + "uniq_from_uniq_ivoa_contract", ["nested::from_uniq_ivoa"], "contract: from_uniq_ivoa(u) likewise"),
        Unit("uniq_spec_injective", U + "uniq_spec_injective", ["(lemma over verif_spec::uniq, uniq_ivoa)"], "lemma: spec encodings injective on valid cells; image satisfies decoder preconditions"),
        Unit("uniq_round_trip", U + "uniq_round_trip", ["nested::to_uniq", "nested::from_uniq", "nested::to_uniq_ivoa", "nested::from_uniq_ivoa"], "end to end: decode(encode(d,h))==(d,h), distinct cells never collide, all depths x all hashes"),
        Unit("uniq_canary", U + "uniq_canary", ["nested::to_uniq", "nested::from_uniq"], "vacuity guard", kind="canary"),
        Unit("uniq_depth_must_panic", U + "uniq_depth_must_panic", ["nested::to_uniq", "nested::to_uniq_ivoa", "check_depth"], "depth > 29 rejected by a panic on every path",
             kind="must_panic", allowed_fail=[r"Expected depth in \[0, 29\]"]),
    ]
    return us
