from driver import Unit

LEVEL = "other"
HARNESS_FILES = ["verif_c16.rs"]
P = "verif_c16::"
MANIFEST = dict(
    category="other",
    text="Decides the contract-expressible half: best_starting_depth(r) is proved, for every f64 below the depth-0 limit, to return the deepest depth whose tabulated limit exceeds r (strictly decreasing table, every depth reachable, refusal by panic for larger radii/NaN, has_best_starting_depth <=> below the limit); The region dispatch of largest_center_to_vertex_distance(_with_radius) is proved never to call a region function outside its documented latitude range in the equatorial region (the obligation that refuted the original code: finding D17; the polar-cap branch is excluded because CBMC over-approximates the float remainder `%`); the start-depth table carries a transcription guard (each limit more than twice the next, ratios decreasing towards 2). That the '_with_radius' envelopes dominate the pointwise ones was attempted (two formulations, CBMC did not finish in 15 min) and is reported as not decided. That these envelopes bound the TRUE centre-to-vertex distance, and that a cone below the tabulated limit fits in 9 cells, is spherical geometry no installed verifier can express: stated as not decided.",
    note="Proved obligations are complete over all doubles (loop-free CBMC queries). Not decided: geometric meaning of the table and of the envelopes (true distances on the sphere); dominance across region borders; the multi-depth variant (Vec + lazily created constants through libm).",
    technique="Kani full-domain harnesses over IEEE-754 doubles (CBMC) on the real functions; no libm involved",
)
EXPLANATION = ("best_starting_depth / has_best_starting_depth: complete proofs over all 2^64 doubles. Envelope dominance of the _with_radius variants: NOT decided (solver timeouts). "
               "The geometric half of C16 (true distances) is outside contract-based verification here and is NOT claimed; level is therefore 'other', not 'proof'.")
ASSUMPTIONS = ["NOT DECIDED: '_with_radius' variants bound the pointwise envelope for every cell centre within the radius (CBMC timeouts on double multiplications with symbolic constants)",
               "IEEE-754 monotonicity: for slope >= 0, x1 <= x2 implies slope*x1+b <= slope*x2+b in round-to-nearest double arithmetic (and the mirror for a coefficient <= 0 applied to x^2, x >= 0); the direct CBMC query of this fact with symbolic constants did not finish in 15 min and is replaced by the argument lemmas",
               "sign/size facts of ConstantsC2V::new for the 30 depths (slopes >= 0, parabola coefficient <= 0, all magnitudes <= 4) are assumed in the dominance lemmas",
               "the geometric claims of C16 (envelope >= true centre-to-vertex distance; cone of radius < table[d] inside 9 cells) are not decided"]
TRUSTED_BASE = ["Kani 0.68 / CBMC 6.11 IEEE-754 semantics (bit-precise)"]


def units():
    F = ["best_starting_depth", "has_best_starting_depth", "SMALLER_EDGE2OPEDGE_DIST"]
    return [
        Unit("bsd_contract", P + "bsd_contract", F, "for every f64 r < T[0]: T[d] > r and (d == 29 or T[d+1] <= r)"),
        Unit("bsd_every_depth_reachable", P + "bsd_every_depth_reachable", F, "each of the 30 depths is returned for some radius (no dead arm in the unrolled binary search)"),
        Unit("bsd_table_strictly_decreasing", P + "bsd_table_strictly_decreasing", F, "table strictly decreasing, entries halve"),
        Unit("bsd_has_iff", P + "bsd_has_iff", F, "has_best_starting_depth(r) <=> r < T[0], all doubles incl. NaN"),
        Unit("bsd_must_panic", P + "bsd_must_panic", F, "radius >= T[0], +inf or NaN: refused by a panic on every path", kind="must_panic", allowed_fail=[r"Too large value"]),
        Unit("bsd_canary", P + "bsd_canary", F, "vacuity guard", kind="canary"),
        Unit("c2v_dispatch_is_safe", P + "c2v_dispatch_is_safe", ["largest_center_to_vertex_distance", "largest_c2v_dist_in_npc", "largest_c2v_dist_in_eqr_top", "largest_c2v_dist_in_eqr_bottom", "(stub) lazy ConstantsC2V"], "every depth, equatorial region |lat| < asin(2/3): each region function is called inside its documented latitude range (no internal assertion fails, debug == release); polar-cap branch excluded (CBMC over-approximates the float remainder)", timeout=600),
        Unit("c2v_with_radius_dispatch_is_safe", P + "c2v_with_radius_dispatch_is_safe", ["largest_center_to_vertex_distance_with_radius", "largest_c2v_dist_in_*_with_radius", "(stub) lazy ConstantsC2V"], "every depth, |lat| + radius < asin(2/3): same for the with-radius dispatch (this is the obligation that refuted the original code: finding D17)", timeout=600),
    ]
