from driver import Unit
LEVEL = "other"
HARNESS_FILES = ["verif_poly.rs", "verif_bmoc.rs"]
P = "nested::verif_poly::"
MANIFEST = dict(
    category="other",
    text="The structural half is decided: (1) is_in_list(depth, hash, depth_max, sorted list) is proved equivalent to 'some listed deepest cell is a descendant of (depth, hash)' for every depth_max <= 29, every cell and every sorted list of up to 4 entries (std binary_search included, not stubbed); (2) the real recursion polygon_coverage_recur, with n_vertices_in_poly / has_intersection replaced by ARBITRARY answers over a 2-level tree and the builder by its verified tracker contract, keeps every listed vertex cell (partial) whatever the predicates answer, marks a cell full only when its 4 vertices were reported inside, descends / keeps a partial cell iff a vertex is inside or an edge intersects, drops it otherwise, and pushes cells in strictly increasing disjoint order (well-formedness, C09). Polygon::contains, the bounding cone, tightness and flag honesty quantify over spherical geometry (products of trig-derived 3-vectors): no contract within reach of the installed verifiers expresses them -- NOT decided.",
    note="Bounded in list length (<= 4 for is_in_list, <= 2 in the recursion) and recursion depth difference (<= 2). The geometric claims of C12 are not decided.",
    technique="Kani bounded harnesses (CBMC) on the real is_in_list against its set-theoretic contract and on the real polygon_coverage_recur against its descent contract (geometric predicates as arbitrary-answer stubs, builder as contract stub)",
)
EXPLANATION = "List length and depth difference are the bounds; list contents, the queried cell, the root cell and every geometric answer are fully symbolic."
ASSUMPTIONS = ["geometric claims of C12 (point-in-polygon, tightness, full-flag honesty, bounding cone) NOT decided", "n_vertices_in_poly / has_intersection answers are arbitrary in the recursion units (their geometry is not verified)", "polygon_coverage's construction of the start cells and of the vertex-cell list (bounding cone, hashs, sort) is read, not verified"]
TRUSTED_BASE = ["Kani 0.68 / CBMC 6.11", "ghost builder tracker (C08)"]
def units():
    rec = [Unit(nm, P + nm, ["Layer::polygon_coverage_recur", "is_in_list", "(arbitrary-answer stubs) n_vertices_in_poly, has_intersection", "(contract stub) BMOCBuilderUnsafe::{new,push}"],
                "polygon descent contract, depth difference %d, %d listed vertex cells, EVERY assignment of the geometric answers: vertex cells are kept (partial) whatever the predicates say; full only when all 4 vertices are in the polygon; partial/descend when some vertex is in or an edge intersects; dropped otherwise; pushes ordered" % (dl, nl),
                timeout=1500, mem_gb=8, level="B", bound="depth difference %d, %d vertex cells" % (dl, nl), extra=dict(no_native=True))
           for (nm, dl, nl) in (("poly_recur_delta0_n1", 0, 1), ("poly_recur_delta1_n1", 1, 1), ("poly_recur_delta1_n2", 1, 2), ("poly_recur_delta2_n1", 2, 1), ("poly_recur_delta2_n0", 2, 0))]
    return rec + [Unit("poly_is_in_list_%d" % n, P + "poly_is_in_list_%d" % n, ["is_in_list", "slice::binary_search"], "sorted list of %d vertex cells: is_in_list <=> a listed cell is a descendant of the queried cell" % n, timeout=600, level="B", bound="%d entries" % n) for n in range(5)]
