from driver import Unit
LEVEL = "other"
HARNESS_FILES = ["verif_poly.rs", "verif_bmoc.rs"]
P = "nested::verif_poly::"
MANIFEST = dict(
    category="other",
    text="Only the structural mechanism that keeps the vertex cells is decided: is_in_list(depth, hash, depth_max, sorted list) is proved equivalent to 'some listed deepest cell is a descendant of (depth, hash)' for every depth_max <= 29, every cell and every sorted list of up to 4 entries (std binary_search included, not stubbed). Polygon::contains, the bounding cone, tightness and flag honesty quantify over spherical geometry (products of trig-derived 3-vectors): no contract within reach of the installed verifiers expresses them -- NOT decided.",
    note="Bounded in list length (<= 4). The geometric claims of C12 are not decided.",
    technique="Kani bounded harness (CBMC) on the real is_in_list against its set-theoretic contract",
)
EXPLANATION = "List length is the bound; contents, depths and the queried cell are fully symbolic."
ASSUMPTIONS = ["geometric claims of C12 (point-in-polygon, tightness, full-flag honesty, bounding cone) NOT decided", "polygon_coverage_recur's use of is_in_list is read, not verified (Vec/closures/libm)"]
TRUSTED_BASE = ["Kani 0.68 / CBMC 6.11"]
def units():
    return [Unit("poly_is_in_list_%d" % n, P + "poly_is_in_list_%d" % n, ["is_in_list", "slice::binary_search"], "sorted list of %d vertex cells: is_in_list <=> a listed cell is a descendant of the queried cell" % n, timeout=600, level="B", bound="%d entries" % n) for n in range(5)]
