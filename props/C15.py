from bmoc_common import *
LEVEL = "other"
MANIFEST = dict(
    category="other",
    text="Bounded stand-ins on the real builder code (symbolic contents, bounded sizes): pack (3-4 entries, depth_max 1..2): cell->state map unchanged, well formed, no four full siblings; to_lower_depth (1-4 entries): coarse cell present iff it contained something, full only if it was a full cell of depth <= new depth, well formed; buff_to_bmoc (sorted duplicate-free buffers of 1,4,5 hashes, depth <= 2): covers exactly the buffer with the requested flag, well formed; contract of largest_lower_cell_sequence_len for every depth (complete); fixed-depth builder structure with capacity 1 (every drained buffer is merged through or(), buffer emptied, nothing pushed => None). The merge itself is C08's or() contract.",
    note="Bounded in entries/buffer length/capacity; sort_unstable+dedup paths (capacity >= 2 with unsorted input) did not finish in CBMC and are not decided; or() is replaced by a recording stub in the builder-structure unit.",
    technique="Kani bounded harnesses (CBMC) on the real builder functions with symbolic contents; leaf contract proved for all depths",
)
EXPLANATION = "All units are bounded stand-ins except bmoc_seq_len_contract (complete over depth and slice contents up to length 5)."
ASSUMPTIONS = ["std sort_unstable/dedup are trusted (their paths are not explored)", "size bounds per unit", "BMOC::or replaced by a recording stub in bmoc_fixed_builder_structure_cap1 (its contract is C08)"]
def units():
    B = ["BMOCBuilderUnsafe::pack", "get_depth", "get_hash_from_delta_depth", "is_partial", "is_not_first_cell_of_larger_cell", "build_raw_value"]
    L = ["BMOCBuilderUnsafe::to_lower_depth", "BMOCBuilderUnsafe::low_depth_raw_val_at_lower_depth", "BMOCBuilderUnsafe::get_depth"]
    F = ["BMOCBuilderFixedDepth::buff_to_bmoc", "BMOCBuilderFixedDepth::largest_lower_cell_sequence_len", "BMOC::create_unsafe_copying", "build_raw_value"]
    us = [
        Unit("bmoc_pack_4", P + "bmoc_pack_4", B, "pack on 4 symbolic well-formed entries, depth_max 1..2: state map unchanged, well formed, packed", timeout=1500, mem_gb=8, level="B", bound="4 entries, depth_max <= 2"),
        Unit("bmoc_pack_3", P + "bmoc_pack_3", B, "pack on 3 entries", tiers=th, timeout=1500, mem_gb=8, level="B", bound="3 entries, depth_max <= 2"),
        Unit("bmoc_pack_5", P + "bmoc_pack_5", B, "pack on 5 entries: time-bounded refutation search", kind="search", tiers=th, timeout=1500, mem_gb=8, level="B"),
        Unit("bmoc_seq_len_contract", P + "bmoc_seq_len_contract", ["BMOCBuilderFixedDepth::largest_lower_cell_sequence_len"], "run length == longest consecutive run at the head of the slice capped at the alignment block; all depths, slices up to 5", level="P"),
        Unit("bmoc_fixed_builder_empty", P + "bmoc_fixed_builder_empty", ["BMOCBuilderFixedDepth::{with_capacity,to_bmoc}"], "nothing pushed => None"),
        Unit("bmoc_fixed_builder_structure_cap1", P + "bmoc_fixed_builder_structure_cap1", ["BMOCBuilderFixedDepth::{push,drain_buffer,to_bmoc,clear_buff}", "(recording stub) BMOC::or"], "capacity 1, four symbolic pushes: every drained buffer is merged through or(), result is Some, buffer emptied", timeout=900, level="B", bound="capacity 1, 4 pushes"),
    ]
    for n in (1, 2, 3, 4):
        us.append(Unit("bmoc_lower_%d" % n, P + "bmoc_lower_%d" % n, L, "to_lower_depth on %d entries, depth_max 1..2, every new depth: presence/flag rule, well formed" % n, tiers=both if n < 4 else th, timeout=900, mem_gb=8, level="B", bound="%d entries" % n))
    for n in (1, 4, 5):
        us.append(Unit("bmoc_buff_%d" % n, P + "bmoc_buff_%d" % n, F, "buff_to_bmoc on a sorted duplicate-free buffer of %d hashes, depth <= 2, both flags: covers exactly the buffer" % n, tiers=both if n < 5 else th, timeout=900, mem_gb=8, level="B", bound="%d hashes" % n))
    return us
