from bmoc_common import *
LEVEL = "other"
MANIFEST = dict(
    category="other",
    text="Same machinery as C08 restricted to all-full operands (plain MOCs): complement / intersection / union / symmetric difference on the set of deepest cells for operands of equal or different maximal depth, all-full in => all-full out, output well formed; canonical packed form is inherited from the pack contract (C15) for or/xor (to_bmoc_packing) and is NOT decided for not/and. Bounded in the number of entries (and: 2x2, or/xor: 1x1, not: 3).",
    note="Bounded; the algebraic corollaries (double complement, De Morgan) follow from the pointwise contracts only within the bound. Canonical form of not()/and() outputs not decided.",
    technique="Kani contract-stubbed harnesses (CBMC) on the real operators with all-full symbolic operands, bounded operand size",
)
EXPLANATION = "All-full instances of the operator contracts; see C08 for the general three-valued case."
ASSUMPTIONS = ["operand size bound as stated per unit", "packedness of not()/and() results is not decided; or()/xor() call pack (C15 contract, bounded)"]
def units():
    us = [u for u in refinement_units() if u.name == "bmoc_dd_4_go_up_contract"]
    for (na, nb) in ((1, 0), (0, 1), (1, 1)):
        for op in ("and", "or", "xor"):
            us.append(op_unit(op, na, nb, True, both))
    us.append(op_unit("and", 2, 2, True, th, 1800))
    for n in (0, 1, 2):
        us.append(not_unit(n, False, both))
    return us
